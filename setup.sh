#!/bin/sh
set -e
export GOFLAGS=-mod=mod GOPROXY=off GOSUMDB=off GOTOOLCHAIN=local
cd /verif/engine && go build -o /verif/bin/govc .
