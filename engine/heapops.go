package main

// Heap model: component-wise (one SMT array per struct field / pointee type /
// slice element type / map type), engine-side pointers.

import (
	"fmt"
	"go/ast"
	"go/types"
	"strings"
)

func (x *Exec) compOf(h *Heap, name string, s Sort) *Term {
	if t, ok := h.comps[name]; ok {
		return t
	}
	if tag, ok := h.pending[name]; ok {
		t := x.w.declConst("H"+tag+"!"+name, s)
		h.comps[name] = t
		x.compSorts[name] = s
		x.writes[name] = true
		if x.unit != nil && x.unit.Con != nil && !x.unit.Con.ModifiesAll && x.modLocs != nil && !strings.HasPrefix(name, "G!") {
			// as for components havocked with a known sort: what the unit's modifies clause does not
			// mention keeps its entry contents (a free loop invariant, checked at back edges and returns);
			// the fact is kept with the heap and joins the path condition at the next obligation
			h.facts = append(h.facts, x.frameGoal(name, t))
		}
		return t
	}
	if h.epoch != "" && !(strings.HasPrefix(name, "G!") && x.eng.globalIsConstant(name)) {
		t := x.w.declConst("H"+h.epoch+"!"+name, s)
		h.comps[name] = t
		x.compSorts[name] = s
		x.writes[name] = true
		return t
	}
	t := x.w.declConst("H0!"+name, s)
	h.comps[name] = t
	x.compSorts[name] = s
	return t
}

func (x *Exec) setComp(h *Heap, name string, t *Term) {
	x.compSorts[name] = t.Sort
	h.comps[name] = x.w.Define("h."+name, t)
}

func fieldCompName(t types.Type, i int) string {
	st := t.Underlying().(*types.Struct)
	return "F!" + typeKey(t) + "!" + st.Field(i).Name()
}

func (x *Exec) fieldComp(h *Heap, t types.Type, i int) (string, *Term) {
	st := t.Underlying().(*types.Struct)
	name := fieldCompName(t, i)
	return name, x.compOf(h, name, ArraySort(SInt, x.w.SortOf(st.Field(i).Type())))
}

func (x *Exec) pointeeComp(h *Heap, t types.Type) (string, *Term) {
	name := "P!" + typeKey(t)
	return name, x.compOf(h, name, ArraySort(SInt, x.w.SortOf(t)))
}

func (x *Exec) elemComp(h *Heap, elem types.Type) (string, *Term) {
	name := "E!" + typeKey(elem)
	return name, x.compOf(h, name, ArraySort(SInt, ArraySort(x.w.IS, x.w.SortOf(elem))))
}

func (x *Exec) mapComps(h *Heap, mt *types.Map, full types.Type) (string, *Term, string, *Term) {
	k := mapTypeKey(full)
	ks, vs := x.w.SortOf(mt.Key()), x.w.SortOf(mt.Elem())
	vn, dn := "MV!"+k, "MD!"+k
	return vn, x.compOf(h, vn, ArraySort(SInt, ArraySort(ks, vs))), dn, x.compOf(h, dn, ArraySort(SInt, ArraySort(ks, SBool)))
}

func (x *Exec) globalComp(h *Heap, pkg, name string, t types.Type) (string, *Term) {
	n := "G!" + pkg + "." + name
	return n, x.compOf(h, n, x.w.SortOf(t))
}

// ---------------------------------------------------------------------------

// loadBase reads the whole base object of p.
func (x *Exec) loadBase(fr *Frame, h *Heap, p *Ptr) *Term {
	switch {
	case p.Local != nil:
		v, ok := fr.cells[p.Local]
		if !ok {
			unsupportedf("read of local cell %s outside its frame", p.Local.Comment)
		}
		return v
	case p.Global != nil:
		_, t := x.globalComp(h, p.Global.Pkg.Pkg.Name(), p.Global.Name(), p.Base)
		return t
	case p.Elem != nil:
		_, e := x.elemComp(h, p.Base)
		return Select(Select(e, p.Ref), p.Elem)
	default:
		switch u := p.Base.Underlying().(type) {
		case *types.Struct:
			r := x.w.RecordOfType(p.Base)
			args := make([]*Term, u.NumFields())
			for i := range args {
				_, c := x.fieldComp(h, p.Base, i)
				args[i] = Select(c, p.Ref)
			}
			return r.Make(args...)
		case *types.Array:
			_, e := x.elemComp(h, u.Elem())
			return Select(e, p.Ref)
		default:
			_, c := x.pointeeComp(h, p.Base)
			return Select(c, p.Ref)
		}
	}
}

func (x *Exec) project(v *Term, base types.Type, path []PathStep) *Term {
	cur := base
	for _, s := range path {
		if s.Index != nil {
			v = Select(v, s.Index)
		} else {
			v = x.w.RecordOfType(cur).Get(v, s.Field)
		}
		cur = s.T
	}
	return v
}

// update returns v with the sub-object at path replaced by nv.
func (x *Exec) update(v *Term, base types.Type, path []PathStep, nv *Term) *Term {
	if len(path) == 0 {
		return nv
	}
	s := path[0]
	if s.Index != nil {
		inner := x.update(Select(v, s.Index), s.T, path[1:], nv)
		return Store(v, s.Index, inner)
	}
	r := x.w.RecordOfType(base)
	inner := x.update(r.Get(v, s.Field), s.T, path[1:], nv)
	return r.Set(v, s.Field, inner)
}

// Load reads through an engine pointer.
func (x *Exec) Load(fr *Frame, st *State, p *Ptr) *Term {
	h := st.heap
	var v *Term
	// fast path: heap struct with leading field step
	if p.Local == nil && p.Global == nil && p.Elem == nil && len(p.Path) > 0 && p.Path[0].Index == nil {
		if _, ok := p.Base.Underlying().(*types.Struct); ok {
			_, c := x.fieldComp(h, p.Base, p.Path[0].Field)
			v = x.project(Select(c, p.Ref), p.Path[0].T, p.Path[1:])
		}
	}
	if v == nil {
		v = x.project(x.loadBase(fr, h, p), p.Base, p.Path)
	}
	if p.Cast != nil {
		from := p.Base
		if len(p.Path) > 0 {
			from = p.Path[len(p.Path)-1].T
		}
		v = x.reinterpret(st, v, from, p.Cast)
	}
	return v
}

func (x *Exec) Store(fr *Frame, st *State, p *Ptr, nv *Term) {
	if p.Cast != nil {
		unsupportedf("store through reinterpreted pointer %s", p)
	}
	if p.Local == nil && fr != nil && !fr.pure {
		// heap-wide type invariants are re-established at every heap store
		if inv := x.typeInvTerm(st, nv, p.targetType()); inv != nil {
			x.oblige(st, "typeinv", typeKey(p.targetType())+" stored to heap", x.implicitTags(fr, "typeinv"), inv, x.curPos)
		}
	}
	h := st.heap
	switch {
	case p.Local != nil:
		old := fr.cells[p.Local]
		fr.cells[p.Local] = x.w.Define("c."+p.Local.Comment, x.update(old, p.Base, p.Path, nv))
	case p.Global != nil:
		n, old := x.globalComp(h, p.Global.Pkg.Pkg.Name(), p.Global.Name(), p.Base)
		x.setComp(h, n, x.update(old, p.Base, p.Path, nv))
		x.noteWrite(n, nil)
	case p.Elem != nil:
		n, e := x.elemComp(h, p.Base)
		row := Select(e, p.Ref)
		old := Select(row, p.Elem)
		x.setComp(h, n, Store(e, p.Ref, Store(row, p.Elem, x.update(old, p.Base, p.Path, nv))))
		x.noteWrite(n, p.Ref)
	default:
		switch u := p.Base.Underlying().(type) {
		case *types.Struct:
			if len(p.Path) > 0 && p.Path[0].Index == nil {
				f := p.Path[0].Field
				n, c := x.fieldComp(h, p.Base, f)
				old := Select(c, p.Ref)
				x.setComp(h, n, Store(c, p.Ref, x.update(old, p.Path[0].T, p.Path[1:], nv)))
				x.noteWrite(n, p.Ref)
				return
			}
			r := x.w.RecordOfType(p.Base)
			for i := 0; i < u.NumFields(); i++ {
				n, c := x.fieldComp(h, p.Base, i)
				x.setComp(h, n, Store(c, p.Ref, r.Get(nv, i)))
				x.noteWrite(n, p.Ref)
			}
		case *types.Array:
			n, e := x.elemComp(h, u.Elem())
			old := Select(e, p.Ref)
			x.setComp(h, n, Store(e, p.Ref, x.update(old, p.Base, p.Path, nv)))
			x.noteWrite(n, p.Ref)
		default:
			n, c := x.pointeeComp(h, p.Base)
			x.setComp(h, n, Store(c, p.Ref, nv))
			x.noteWrite(n, p.Ref)
		}
	}
}

// reinterpret models *(*To)(unsafe.Pointer(&from)).
func (x *Exec) reinterpret(st *State, v *Term, from, to types.Type) *Term {
	fs, ts := x.w.SortOf(from), x.w.SortOf(to)
	fb, _ := from.Underlying().(*types.Basic)
	tb, _ := to.Underlying().(*types.Basic)
	if fb == nil || tb == nil {
		if fs == ts {
			return v
		}
		unsupportedf("reinterpret %s as %s", from, to)
	}
	fInt, tInt := fb.Info()&types.IsInteger != 0, tb.Info()&types.IsInteger != 0
	fFl, tFl := fb.Info()&types.IsFloat != 0, tb.Info()&types.IsFloat != 0
	switch {
	case fInt && tInt:
		if fs == ts {
			return v // same width bit pattern (int mode: identity, assumption listed)
		}
	case fInt && tFl:
		if x.w.Mode == "bv" && fs == SBV64 {
			return App("(_ to_fp 11 53)", SF64, v)
		}
		// int mode: uninterpreted bit cast
		x.w.declFun("bits2f", "(Int) "+string(SF64))
		return App("bits2f", SF64, v)
	case fFl && tInt:
		if x.w.Mode == "bv" {
			b := x.w.Fresh("fbits", SBV64)
			st.assume(Eq(App("(_ to_fp 11 53)", SF64, b), v))
			return b
		}
		x.w.declFun("f2bits", "("+string(SF64)+") Int")
		x.w.declFun("bits2f", "(Int) "+string(SF64))
		b := App("f2bits", SInt, v)
		st.assume(Eq(App("bits2f", SF64, b), v))
		return b
	case fs == ts:
		return v
	}
	unsupportedf("reinterpret %s as %s", from, to)
	return nil
}

// ptrTerm converts an engine pointer to an SMT reference (only whole heap objects).
func (x *Exec) ptrTerm(p *Ptr) *Term {
	if p.Local == nil && p.Global == nil && p.Elem == nil && len(p.Path) == 0 && p.Ref != nil {
		return p.Ref
	}
	if p.Elem != nil && len(p.Path) == 0 {
		// interior pointer to a slice element: encoded as an opaque non-nil reference
		if _, ok := x.w.funs["elemptr"]; !ok {
			x.w.declFun("elemptr", "(Int "+string(x.w.IS)+") Int")
			a, ix := Atom("a", SInt), Atom("ix", x.w.IS)
			x.w.axioms = append(x.w.axioms, Forall([]*Term{a, ix}, Not(Eq(App("elemptr", SInt, a, ix), IntLit(0, SInt))), []*Term{App("elemptr", SInt, a, ix)}))
		}
		return App("elemptr", SInt, p.Ref, p.Elem)
	}
	if p.Ref != nil && p.Elem == nil && len(p.Path) > 0 {
		// interior pointer to a field: an opaque, non-nil reference
		name := "fptr"
		for _, st := range p.Path {
			if st.Index != nil {
				unsupportedf("pointer %s escapes into a value", p)
			}
			name += fmt.Sprintf("_%d", st.Field)
		}
		name += "_" + typeKey(p.Base)
		if _, ok := x.w.funs[name]; !ok {
			x.w.declFun(name, "(Int) Int")
			r := Atom("r", SInt)
			x.w.axioms = append(x.w.axioms, Forall([]*Term{r}, Not(Eq(App(name, SInt, r), IntLit(0, SInt))), []*Term{App(name, SInt, r)}))
		}
		return App(name, SInt, p.Ref)
	}
	if p.Local != nil {
		// address of a local: opaque non-nil constant
		name := "lptr_" + smtName(p.Local.Comment)
		c := x.w.declConst(name, SInt)
		return c
	}
	unsupportedf("pointer %s escapes into a value", p)
	return nil
}

func (x *Exec) svTerm(v *SV) *Term {
	switch {
	case v == nil:
		unsupportedf("nil symbolic value")
	case v.T != nil:
		return v.T
	case v.P != nil:
		return x.ptrTerm(v.P)
	case v.Fn != nil:
		return x.fnTerm(v)
	}
	unsupportedf("value has no term form (tuple?)")
	return nil
}

func (x *Exec) fnTerm(v *SV) *Term {
	if len(v.Bind) == 0 {
		return x.w.FnID(v.Fn.String())
	}
	// closure: fresh id remembered so that identical SV yields identical id
	if t, ok := x.closureIDs[v]; ok {
		return t
	}
	t := x.w.Fresh("closure", SInt)
	x.closureIDs[v] = t
	x.closureOf[t.String()] = v
	return t
}

// newRef allocates a fresh heap reference.
func (x *Exec) newRef(st *State) *Term {
	r := st.heap.alloc
	st.heap.alloc = x.w.Define("alloc", x.w.Add(r, IntLit(1, SInt)))
	return r
}

// validity assumptions for values of a Go type (memory safety facts).
func (x *Exec) assumeValid(st *State, v *Term, t types.Type, depth int) {
	if depth > 3 {
		return
	}
	w := x.w
	if r := w.abstractRec(t); r != nil {
		// record view of an instruction word: kinds are 3-bit, the opcode 7-bit, addresses 16-bit signed
		for i, f := range r.Fields {
			g := r.Get(v, i)
			switch {
			case strings.HasPrefix(f.Name, "bc_op"):
				st.assume(And(w.Le(w.Int(0), g), w.Le(g, w.Int(127))))
			case strings.HasPrefix(f.Name, "bc_k"):
				st.assume(And(w.Le(w.Int(0), g), w.Le(g, w.Int(7))))
			default:
				st.assume(And(w.Le(w.Int(-32768), g), w.Le(g, w.Int(32767))))
			}
		}
		return
	}
	if depth == 0 || true {
		if inv := x.typeInvTerm(st, v, t); inv != nil {
			st.assume(inv)
		}
	}
	switch u := t.Underlying().(type) {
	case *types.Basic:
		if u.Kind() == types.UnsafePointer {
			st.assume(And(App("<=", SBool, IntLit(0, SInt), v), App("<", SBool, v, st.heap.alloc)))
		}
		if u.Info()&types.IsInteger != 0 && w.Mode == "int" {
			switch u.Kind() {
			case types.Uint, types.Uint64, types.Uintptr:
				st.assume(w.Le(w.Int(0), v))
			case types.Uint8:
				st.assume(And(w.Le(w.Int(0), v), w.Le(v, w.Int(255))))
			case types.Uint16:
				st.assume(And(w.Le(w.Int(0), v), w.Le(v, w.Int(65535))))
			case types.Uint32:
				st.assume(And(w.Le(w.Int(0), v), w.Le(v, w.Int(4294967295))))
			case types.Int32:
				st.assume(And(w.Le(w.Int(-2147483648), v), w.Le(v, w.Int(2147483647))))
			}
		}
	case *types.Pointer, *types.Map:
		st.assume(And(App("<=", SBool, IntLit(0, SInt), v), App("<", SBool, v, st.heap.alloc)))
	case *types.Slice:
		r := w.slice
		arr, off, ln, cp := r.Get(v, 0), r.Get(v, 1), r.Get(v, 2), r.Get(v, 3)
		st.assume(And(App("<=", SBool, IntLit(0, SInt), arr), App("<", SBool, arr, st.heap.alloc),
			w.Le(w.Int(0), off), w.Le(w.Int(0), ln), w.Le(ln, cp),
			Imp(Eq(arr, IntLit(0, SInt)), And(Eq(cp, w.Int(0)), Eq(off, w.Int(0))))))
		if w.Mode == "bv" {
			big := w.Int(1 << 40)
			st.assume(And(w.Le(cp, big), w.Le(off, big)))
		}
	case *types.Struct:
		r := w.RecordOfType(t)
		for i := 0; i < u.NumFields(); i++ {
			if needsValidity(u.Field(i).Type(), 0) {
				x.assumeValid(st, r.Get(v, i), u.Field(i).Type(), depth+1)
			}
		}
	case *types.Interface:
		if ids := x.eng.implementers(w, t); ids != nil {
			tag := w.iface.Get(v, 0)
			alts := []*Term{Eq(tag, IntLit(0, SInt))}
			for _, id := range ids {
				alts = append(alts, Eq(tag, id))
			}
			st.assume(Or(alts...))
		}
	}
}

func needsValidity(t types.Type, depth int) bool {
	if depth > 3 {
		return false
	}
	switch u := t.Underlying().(type) {
	case *types.Basic:
		return u.Info()&types.IsUnsigned != 0 || u.Kind() == types.Int32 || u.Kind() == types.UnsafePointer
	case *types.Pointer, *types.Map, *types.Slice:
		return true
	case *types.Interface:
		return u.NumMethods() > 0
	case *types.Struct:
		for i := 0; i < u.NumFields(); i++ {
			if needsValidity(u.Field(i).Type(), depth+1) {
				return true
			}
		}
	}
	return false
}

func (x *Exec) freshOfType(st *State, prefix string, t types.Type) *SV {
	if tup, ok := t.(*types.Tuple); ok {
		if tup.Len() == 0 {
			return &SV{}
		}
		if tup.Len() == 1 {
			return x.freshOfType(st, prefix, tup.At(0).Type())
		}
		sv := &SV{}
		for i := 0; i < tup.Len(); i++ {
			sv.Tuple = append(sv.Tuple, x.freshOfType(st, fmt.Sprintf("%s.%d", prefix, i), tup.At(i).Type()))
		}
		return sv
	}
	v := x.w.Fresh(prefix, x.w.SortOf(t))
	if needsValidity(t, 0) {
		// inside the package that declares a type invariant, fresh inputs/results are
		// not assumed valid: the contracts there state validity explicitly
		if x.unit != nil && x.unit.Con != nil {
			if ps := x.eng.specs[x.unit.Con.Pkg]; ps != nil && ps.TypeInvs != nil {
				x.noTypeInv = true
			}
		}
		x.assumeValid(st, v, t, 0)
		x.noTypeInv = false
	}
	return TV(v)
}

// typeInvTerm evaluates the declared type invariant of t (if any) on v.
// The invariant of a type is not assumed inside the package that declares it
// for values that do not come from the heap (those contracts state it explicitly).
func (x *Exec) typeInvTerm(st *State, v *Term, t types.Type) *Term {
	decl, info, _ := x.eng.typeInvFor(t)
	if decl == nil || x.noTypeInv {
		return nil
	}
	ret, ok := decl.Body.List[0].(*ast.ReturnStmt)
	if !ok {
		return nil
	}
	env := &Env{x: x, vars: map[string]*SV{}, heap: st.heap, old: st.heap, info: info}
	env.vars[decl.Type.Params.List[0].Names[0].Name] = TV(v)
	return x.svTerm(env.eval(ret.Results[0]))
}
