package main

import (
	"fmt"
	"go/types"
	"math"
	"strings"

	"golang.org/x/tools/go/ssa"
)

func mathFloat64bits(f float64) uint64 { return math.Float64bits(f) }

// SV is a symbolic value: an SMT term, an engine-side pointer, a tuple, or a
// statically known function value.
type SV struct {
	T     *Term
	P     *Ptr
	Tuple []*SV
	Fn    *ssa.Function
	Bind  []*SV
}

func TV(t *Term) *SV { return &SV{T: t} }

type PathStep struct {
	Field int   // >= 0: struct field
	Index *Term // non-nil: array index
	T     types.Type
}

// Ptr is an engine-side pointer: base object + path into it.
type Ptr struct {
	Local  *ssa.Alloc
	Global *ssa.Global
	Ref    *Term // heap object (Int), base type Base
	Elem   *Term // with Ref: element Elem of backing array Ref (element type Base)
	Base   types.Type
	Path   []PathStep
	Cast   types.Type // reinterpretation (unsafe); nil if none
}

func (p *Ptr) with(step PathStep) *Ptr {
	q := *p
	q.Path = append(append([]PathStep{}, p.Path...), step)
	return &q
}

func (p *Ptr) targetType() types.Type {
	if p.Cast != nil {
		return p.Cast
	}
	if len(p.Path) > 0 {
		return p.Path[len(p.Path)-1].T
	}
	return p.Base
}

func (p *Ptr) String() string {
	var sb strings.Builder
	switch {
	case p.Local != nil:
		sb.WriteString("&local:" + p.Local.Comment)
	case p.Global != nil:
		sb.WriteString("&global:" + p.Global.Name())
	case p.Elem != nil:
		fmt.Fprintf(&sb, "&elem(%s)[%s]", p.Ref, p.Elem)
	default:
		fmt.Fprintf(&sb, "&heap(%s)", p.Ref)
	}
	for _, s := range p.Path {
		if s.Index != nil {
			fmt.Fprintf(&sb, "[%s]", s.Index)
		} else {
			fmt.Fprintf(&sb, ".#%d", s.Field)
		}
	}
	return sb.String()
}

// Heap is the component-wise heap: component name -> array term.
type Heap struct {
	comps map[string]*Term
	alloc *Term
	// epoch names the last whole-heap havoc on this path ("" = function entry): a component
	// first touched after such a havoc is a constant of that epoch, not the entry value
	epoch string
	// pending: components havocked (at a loop head) before their sort was known, i.e. before the path
	// first touched them; when they are first touched they are constants of that havoc, not entry values
	pending map[string]string
	facts   []*Term // facts about lazily created constants, not yet in the path condition
}

func (h *Heap) clone() *Heap {
	n := &Heap{comps: make(map[string]*Term, len(h.comps)), alloc: h.alloc, epoch: h.epoch}
	for k, v := range h.comps {
		n.comps[k] = v
	}
	n.facts = append([]*Term(nil), h.facts...)
	if len(h.pending) > 0 {
		n.pending = make(map[string]string, len(h.pending))
		for k, v := range h.pending {
			n.pending[k] = v
		}
	}
	return n
}

// State is a path state.
type State struct {
	heap  *Heap
	pc    []*Term
	known map[string]bool // assumptions already added (dedupe)
	dead  bool
	// markHeap: heap right after the call designated by the unit's `mark` clause returned (spec function marked)
	markHeap *Heap
	// ghost: set of heap refs allocated since entry is alloc0 <= r < alloc
}

func (s *State) clone() *State {
	n := &State{heap: s.heap.clone(), pc: append([]*Term(nil), s.pc...), known: make(map[string]bool, len(s.known)), markHeap: s.markHeap}
	for k := range s.known {
		n.known[k] = true
	}
	return n
}

func (s *State) assume(t *Term) {
	if IsTrue(t) {
		return
	}
	if IsFalse(t) {
		s.dead = true
	}
	if t.Op == "and" {
		for _, a := range t.Args {
			s.assume(a)
		}
		return
	}
	k := t.String()
	if s.known[k] {
		return
	}
	s.known[k] = true
	s.pc = append(s.pc, t)
}

// Frame is the per-path activation record of an SSA function.
type Frame struct {
	fn      *ssa.Function
	vals    map[ssa.Value]*SV
	cells   map[*ssa.Alloc]*Term
	defers  []*ssa.Defer
	depth   int
	loopVar map[*ssa.BasicBlock]*Term // variant value at loop head
	visits  map[*ssa.BasicBlock]int
	pure    bool
	pcAt    map[*ssa.BasicBlock]int
	// snapshot taken when loop 0 of the unit was last entered at its head (spec function iter)
	iterHeap  *Heap
	iterCells map[*ssa.Alloc]*Term
}

func (f *Frame) clone() *Frame {
	n := &Frame{fn: f.fn, depth: f.depth, pure: f.pure, iterHeap: f.iterHeap, iterCells: f.iterCells,
		vals:    make(map[ssa.Value]*SV, len(f.vals)),
		cells:   make(map[*ssa.Alloc]*Term, len(f.cells)),
		loopVar: make(map[*ssa.BasicBlock]*Term, len(f.loopVar)),
		visits:  make(map[*ssa.BasicBlock]int, len(f.visits)),
		defers:  append([]*ssa.Defer(nil), f.defers...)}
	for k, v := range f.vals {
		n.vals[k] = v
	}
	for k, v := range f.cells {
		n.cells[k] = v
	}
	for k, v := range f.loopVar {
		n.loopVar[k] = v
	}
	for k, v := range f.visits {
		n.visits[k] = v
	}
	n.pcAt = make(map[*ssa.BasicBlock]int, len(f.pcAt))
	for k, v := range f.pcAt {
		n.pcAt[k] = v
	}
	return n
}

type unsupported struct{ msg string }

func unsupportedf(format string, args ...any) {
	panic(unsupported{fmt.Sprintf(format, args...)})
}
