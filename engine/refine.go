package main

// Refinement units: a concrete type implements an interface whose method
// contracts are written over ghost (model) functions. For each method, the
// concrete contract must imply the abstract one under the model definitions.

import (
	"fmt"
	"go/ast"
	"go/token"
	"go/types"
	"sort"
	"strings"
	"time"
)

type refineCtx struct {
	con    *Contract
	tl     *Term // the implementing object (pointer)
	info   *types.Info
	ifaceP string // package name of the interface
}

func (e *Engine) VerifyRefine(con *Contract, workdir string, timeoutS int, all bool) []*UnitResult {
	var out []*UnitResult
	i := strings.Index(con.RefIface, ".")
	ips := e.specByPkgName(con.RefIface[:i])
	if ips == nil {
		return []*UnitResult{{Key: shortPkg(con.Pkg) + ".refine " + con.Key, Unsupported: "interface package has no contracts"}}
	}
	ifaceName := con.RefIface[i+1:]
	implName := strings.TrimPrefix(con.RefType, "*")
	var tcs []*Contract
	for _, c := range ips.Contracts {
		if c.Kind == "type" && strings.HasPrefix(c.Key, ifaceName+".") {
			tcs = append(tcs, c)
		}
	}
	sort.Slice(tcs, func(a, b int) bool { return tcs[a].Key < tcs[b].Key })
	for _, tc := range tcs {
		method := strings.TrimPrefix(tc.Key, ifaceName+".")
		fkey := "(" + con.RefType + ")." + method
		if !strings.HasPrefix(con.RefType, "*") {
			fkey = "(" + implName + ")." + method
		}
		fn := e.byKey[con.Pkg][fkey]
		if fn == nil {
			out = append(out, &UnitResult{Key: shortPkg(con.Pkg) + ".refine " + fkey, Unsupported: "method not found"})
			continue
		}
		cc := e.contracts[fn]
		if cc == nil {
			out = append(out, &UnitResult{Key: shortPkg(con.Pkg) + ".refine " + fkey, Unsupported: "concrete method has no contract"})
			continue
		}
		out = append(out, e.verifyRefineMethod(con, tc, cc, fkey, workdir, timeoutS, all))
	}
	return out
}

func (e *Engine) verifyRefineMethod(con, tc, cc *Contract, fkey, workdir string, timeoutS int, all bool) *UnitResult {
	start := time.Now()
	ps := e.specs[con.Pkg]
	key := shortPkg(con.Pkg) + ".refine " + fkey + " : " + con.RefIface + "." + strings.SplitN(tc.Key, ".", 2)[1]
	res := &UnitResult{Key: key, Tags: con.Tags}
	fn := e.byKey[con.Pkg][fkey]
	u := &Unit{Key: key, Con: con, Spec: ps}
	x := e.newExec(u, ps.Mode)
	res.World = x.w
	func() {
		defer func() {
			if r := recover(); r != nil {
				if us, ok := r.(unsupported); ok {
					res.Unsupported = us.msg
					return
				}
				panic(r)
			}
		}()
		st := e.initState(x)
		x.heap0 = st.heap.clone()
		sig := fn.Signature
		recvT := sig.Recv().Type()
		tlv := x.freshOfType(st, "in."+con.RefVar, recvT)
		x.refine = &refineCtx{con: con, tl: tlv.T}
		// abstract receiver: the interface value holding the object
		self := x.w.iface.Make(x.w.TypeID(recvT), x.w.Box(recvT, tlv.T))
		aenv := &Env{x: x, vars: map[string]*SV{}, heap: st.heap, old: st.heap}
		args := []*SV{tlv}
		if len(tc.ParamNames) > 0 {
			aenv.vars[tc.ParamNames[0]] = TV(self)
		}
		for i := 0; i < sig.Params().Len(); i++ {
			v := x.freshOfType(st, fmt.Sprintf("in.p%d", i), sig.Params().At(i).Type())
			args = append(args, v)
			if i+1 < len(tc.ParamNames) {
				aenv.vars[tc.ParamNames[i+1]] = v
			}
		}
		e.assumeGlobalInvs(x, st, con.Pkg)
		cenv := &Env{x: x, vars: map[string]*SV{con.RefVar: tlv}, heap: st.heap, old: st.heap}
		if con.Coupling != nil {
			st.assume(x.evalClauseBool(con.Coupling, cenv, st))
		}
		for _, c := range tc.Requires {
			st.assume(x.evalClauseBool(c, aenv, st))
		}
		x.obls = append(x.obls, &Obligation{Name: key + "#vacuity[requires]", Kind: "vacuity", Tags: con.Tags, Assume: append([]*Term(nil), st.pc...), Unit: key})
		pre := st.heap.clone()
		fr := x.newFrame(fn, 0)
		x.applyContractNamed(fr, st, cc, cc.ParamNames, args, sig.Results(), nil, func(st2 *State, _ *Frame, r *SV) {
			penv := &Env{x: x, vars: map[string]*SV{}, heap: st2.heap, old: pre}
			for k, v := range aenv.vars {
				penv.vars[k] = v
			}
			bindResults(penv, tc.ResultNames, r)
			for _, c := range tc.Ensures {
				x.oblige(st2, "refines", c.Label, con.Tags, x.evalClauseBool(c, penv, st2), token.NoPos)
			}
			if con.Coupling != nil {
				c2 := &Env{x: x, vars: cenv.vars, heap: st2.heap, old: pre}
				x.oblige(st2, "refines", "coupling_preserved", con.Tags, x.evalClauseBool(con.Coupling, c2, st2), token.NoPos)
			}
			// abstract frame: model functions not named in the abstract modifies are unchanged
			mod := map[string]bool{}
			for _, m := range tc.Modifies {
				if lit, ok := m.Expr.(*ast.CompositeLit); ok {
					for _, el := range lit.Elts {
						if call, ok := el.(*ast.CallExpr); ok {
							if id, ok := call.Fun.(*ast.Ident); ok {
								mod[strings.TrimSuffix(id.Name, "_row")] = true
							}
						}
					}
				}
			}
			var names []string
			for n := range con.Models {
				names = append(names, n)
			}
			sort.Strings(names)
			for _, n := range names {
				if mod[n] {
					continue
				}
				m := con.Models[n]
				now, vars := x.evalModel(m, con, st2.heap, pre, st2)
				was, _ := x.evalModelWith(m, con, pre, pre, st2, vars)
				x.oblige(st2, "refines", "ghost_unchanged:"+n, con.Tags, Forall(vars, Eq(now, was)), token.NoPos)
			}
		})
	}()
	res.Notes = dedupe(x.notes)
	res.Obls = x.obls
	if res.Unsupported == "" {
		e.solveUnit(x.w, res, workdir, timeoutS, all)
	}
	res.Seconds = time.Since(start).Seconds()
	return res
}

// evalModel evaluates a model definition; extra parameters become fresh bound variables.
func (x *Exec) evalModel(m *Clause, con *Contract, heap, old *Heap, st *State) (*Term, []*Term) {
	var vars []*Term
	fd := m.Func
	info := x.eng.clauseInfo[m]
	first := true
	for _, f := range fd.Type.Params.List {
		for _, nm := range f.Names {
			if first {
				first = false
				continue
			}
			x.w.seq++
			vars = append(vars, Atom(fmt.Sprintf("%s!q%d", nm.Name, x.w.seq), x.w.SortOf(info.Types[f.Type].Type)))
		}
	}
	return x.evalModelWith(m, con, heap, old, st, vars)
}

func (x *Exec) evalModelWith(m *Clause, con *Contract, heap, old *Heap, st *State, extra []*Term) (*Term, []*Term) {
	env := &Env{x: x, vars: map[string]*SV{con.RefVar: TV(x.refine.tl)}, bound: map[string]*Term{}, heap: heap, old: old, st: nil, info: x.eng.clauseInfo[m]}
	fd := m.Func
	i := 0
	first := true
	for _, f := range fd.Type.Params.List {
		for _, nm := range f.Names {
			if first {
				first = false
				continue
			}
			if i < len(extra) {
				if strings.Contains(extra[i].Op, "!q") {
					env.bound[nm.Name] = extra[i]
				} else {
					env.vars[nm.Name] = TV(extra[i])
				}
			}
			i++
		}
	}
	return x.svTerm(env.eval(m.Expr)), extra
}
