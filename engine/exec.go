package main

// Symbolic executor over go/ssa (naive form).

import (
	"os"
	"go/constant"
	"fmt"
	"go/ast"
	"go/token"
	"go/types"
	"sort"
	"strings"

	"golang.org/x/tools/go/ssa"
)

type Obligation struct {
	Name   string   // stable name
	Kind   string   // requires/ensures/invariant/decreases/index/slice/nil/div/panic/typeassert/frame/...
	Tags   []string // property ids
	Assume []*Term
	Goal   *Term
	Pos    string
	Unit   string
	// results
	Status  string // unsat/sat/unknown
	Solver  string
	TimeS   float64
	Model   string
	Script  string
	PathIdx int
}

type Exec struct {
	eng  *Engine
	w    *World
	unit *Unit

	obls       []*Obligation
	compSorts  map[string]Sort
	heap0      *Heap
	cur        *State // path state of the instruction being executed (for facts about lazily created heap constants)
	epochN     int
	alloc0     *Term
	closureIDs map[*SV]*Term
	closureOf  map[string]*SV
	writes     map[string]bool // heap components written anywhere (for frame obligations)
	imVal      types.Type      // value type of the intmap.Map instantiation in use
	vacuous    []string        // calls whose assumed postconditions made a live path infeasible
	paths      int
	notes      []string
	entryEnv   map[string]*SV // parameter bindings at entry
	oblSeq     map[string]int
	modLocs    map[string][]*Term
	noTypeInv  bool
	refine     *refineCtx
	feas       *feasSolver
	cutSeen    map[string]string
	inRunning  bool
	curPos     token.Pos
}

func (x *Exec) noteWrite(comp string, ref *Term) { x.writes[comp] = true }

const maxInlineDepth = 8
const maxPaths = 20000

// oblige records a proof obligation under the current path condition.
// assumedImplicit: "option assume-implicit <kind> <label substring>" turns matching implicit
// obligations of the package into recorded assumptions.
func (x *Exec) assumedImplicit(kind, label string) bool {
	if x.unit == nil || x.unit.Spec == nil {
		return false
	}
	for o := range x.unit.Spec.Options {
		if !strings.HasPrefix(o, "assume-implicit ") {
			continue
		}
		f := strings.SplitN(strings.TrimSpace(strings.TrimPrefix(o, "assume-implicit ")), " ", 2)
		if f[0] != kind {
			continue
		}
		if len(f) == 1 || strings.Contains(label, strings.TrimSpace(f[1])) {
			return true
		}
	}
	return false
}

func (x *Exec) oblige(st *State, kind, label string, tags []string, goal *Term, pos token.Pos) {
	if len(st.heap.facts) > 0 {
		fs := st.heap.facts
		st.heap.facts = nil
		for _, f := range fs {
			st.assume(f)
		}
	}
	if !st.dead && !IsTrue(goal) && x.assumedImplicit(kind, label) {
		x.notes = append(x.notes, "assumed (unchecked, option assume-implicit): "+kind+"["+label+"] in "+x.unit.Key)
		if IsFalse(goal) {
			st.dead = true
		}
		return
	}
	if st.dead || IsTrue(goal) {
		// still count trivially true obligations so names are stable
		if !st.dead {
			x.obls = append(x.obls, &Obligation{Name: x.unit.Key + "#" + kind + "[" + label + "]", Kind: kind, Tags: tags, Goal: goal, Status: "unsat", Solver: "syntactic", Unit: x.unit.Key, Pos: x.eng.posString(pos)})
		}
		return
	}
	if goal.Op == "=>" && len(goal.Args) == 2 && goal.Args[1].Op == "and" && len(goal.Args[1].Args) > 1 {
		for _, g := range goal.Args[1].Args {
			x.oblige(st, kind, label, tags, Imp(goal.Args[0], g), pos)
		}
		return
	}
	if goal.Op == "and" && len(goal.Args) > 1 {
		// split conjunctions: one query per conjunct (aggregated under the same name)
		for _, g := range goal.Args {
			x.oblige(st, kind, label, tags, g, pos)
		}
		return
	}
	o := &Obligation{Name: x.unit.Key + "#" + kind + "[" + label + "]", Kind: kind, Tags: tags,
		Assume: append([]*Term(nil), st.pc...), Goal: goal, Unit: x.unit.Key, Pos: x.eng.posString(pos), PathIdx: x.paths}
	x.obls = append(x.obls, o)
}

// srcLabel gives the source text of the innermost expression at pos.
func (x *Exec) srcLabel(pos token.Pos, want string) string {
	if !pos.IsValid() {
		return "?"
	}
	txt := x.eng.exprTextAt(pos, want)
	if txt == "" {
		return "?"
	}
	return txt
}

// ---------------------------------------------------------------------------

type retK func(st *State, res *SV)

func (x *Exec) newFrame(fn *ssa.Function, depth int) *Frame {
	return &Frame{fn: fn, depth: depth, vals: map[ssa.Value]*SV{}, cells: map[*ssa.Alloc]*Term{}, loopVar: map[*ssa.BasicBlock]*Term{}, visits: map[*ssa.BasicBlock]int{}, pcAt: map[*ssa.BasicBlock]int{}}
}

// runFunction executes fn with args; k is invoked on each returning path.
func (x *Exec) runFunction(fn *ssa.Function, st *State, args []*SV, free []*SV, depth int, pure bool, k retK) {
	if fn.Blocks == nil {
		unsupportedf("function %s has no body", fn)
	}
	if depth > maxInlineDepth {
		unsupportedf("inline depth exceeded at %s", fn)
	}
	fr := x.newFrame(fn, depth)
	fr.pure = pure
	for i, p := range fn.Params {
		fr.vals[p] = args[i]
	}
	for i, fv := range fn.FreeVars {
		if i < len(free) {
			fr.vals[fv] = free[i]
		}
	}
	x.execBlock(fr, st, fn.Blocks[0], nil, k)
}

func (x *Exec) val(fr *Frame, st *State, v ssa.Value) *SV {
	switch c := v.(type) {
	case *ssa.Const:
		if c.Value == nil {
			// nil / zero
			if _, ok := c.Type().Underlying().(*types.Signature); ok {
				return TV(IntLit(0, SInt))
			}
			return TV(x.w.Zero(c.Type()))
		}
		return TV(x.w.ConstTerm(c.Value, c.Type()))
	case *ssa.Global:
		return &SV{P: &Ptr{Global: c, Base: c.Type().(*types.Pointer).Elem()}}
	case *ssa.Function:
		return &SV{Fn: c}
	case *ssa.Builtin:
		unsupportedf("builtin %s used as value", c.Name())
	}
	sv, ok := fr.vals[v]
	if !ok {
		unsupportedf("no value for %s (%T) in %s", v.Name(), v, fr.fn)
	}
	return sv
}

func (x *Exec) term(fr *Frame, st *State, v ssa.Value) *Term { return x.svTerm(x.val(fr, st, v)) }

func (x *Exec) execBlock(fr *Frame, st *State, b *ssa.BasicBlock, prev *ssa.BasicBlock, k retK) {
	if st.dead {
		return
	}
	x.paths++
	if x.paths > maxPaths {
		unsupportedf("path budget exceeded in %s", x.unit.Key)
	}
	// loop handling
	if li := x.eng.loopInfo(fr.fn); li != nil {
		if lp := li.headers[b]; lp != nil {
			if !x.enterLoopHead(fr, st, b, prev, lp) {
				return
			}
		}
	}
	if fr.depth == 0 && !fr.pure && prev != nil {
		x.checkLoopExits(fr, st, prev, b)
	}
	x.bindPhis(fr, st, b, prev)
	if _, seen := fr.pcAt[b]; !seen {
		fr.pcAt[b] = len(st.pc)
	}
	if fr.depth == 0 && !fr.pure {
		if cut := x.eng.cutFor(fr.fn, b); cut != nil {
			if !x.atCut(fr, st, b, cut) {
				return
			}
		}
	}
	fr.visits[b]++
	if fr.visits[b] > 64 {
		unsupportedf("block %d of %s revisited too often (loop without invariant?)", b.Index, fr.fn)
	}
	for _, ins := range b.Instrs {
		if st.dead {
			return
		}
		x.cur = st
		switch i := ins.(type) {
		case *ssa.Phi:
			continue
		case *ssa.If:
			c := x.term(fr, st, i.Cond)
			tb, fb := b.Succs[0], b.Succs[1]
			if IsTrue(c) {
				x.execBlock(fr, st, tb, b, k)
				return
			}
			if IsFalse(c) {
				x.execBlock(fr, st, fb, b, k)
				return
			}
			st2, fr2 := st.clone(), fr.clone()
			st.assume(c)
			if x.feasible(st) {
				x.execBlock(fr, st, tb, b, k)
			}
			st2.assume(Not(c))
			if x.feasible(st2) {
				x.execBlock(fr2, st2, fb, b, k)
			}
			return
		case *ssa.Jump:
			x.execBlock(fr, st, b.Succs[0], b, k)
			return
		case *ssa.Return:
			if fr.depth == 0 && !fr.pure {
				x.checkLoopExits(fr, st, b, nil)
			}
			var res *SV
			switch len(i.Results) {
			case 0:
				res = &SV{}
			case 1:
				res = x.val(fr, st, i.Results[0])
			default:
				res = &SV{}
				for _, r := range i.Results {
					res.Tuple = append(res.Tuple, x.val(fr, st, r))
				}
			}
			k(st, res)
			return
		case *ssa.Panic:
			x.handlePanic(fr, st, i)
			return
		case *ssa.Call:
			// calls may fork: continue the rest of the block in the continuation
			rest := restOf(b, ins)
			x.doCall(fr, st, i, func(st2 *State, fr2 *Frame, res *SV) {
				fr2.vals[i] = res
				x.execRest(fr2, st2, b, rest, k)
			})
			return
		case *ssa.RunDefers:
			if len(fr.defers) > 0 {
				rest := restOf(b, ins)
				x.runDefers(fr, st, len(fr.defers)-1, func(st2 *State, fr2 *Frame) {
					x.execRest(fr2, st2, b, rest, k)
				})
				return
			}
		default:
			x.execInstr(fr, st, ins)
		}
	}
}

func restOf(b *ssa.BasicBlock, ins ssa.Instruction) int {
	for j, o := range b.Instrs {
		if o == ins {
			return j + 1
		}
	}
	panic("instr not in block")
}

// execRest continues block b from instruction index `from`.
func (x *Exec) execRest(fr *Frame, st *State, b *ssa.BasicBlock, from int, k retK) {
	if st.dead {
		return
	}
	for j := from; j < len(b.Instrs); j++ {
		ins := b.Instrs[j]
		if st.dead {
			return
		}
		switch i := ins.(type) {
		case *ssa.If:
			c := x.term(fr, st, i.Cond)
			tb, fb := b.Succs[0], b.Succs[1]
			if IsTrue(c) {
				x.execBlock(fr, st, tb, b, k)
				return
			}
			if IsFalse(c) {
				x.execBlock(fr, st, fb, b, k)
				return
			}
			st2, fr2 := st.clone(), fr.clone()
			st.assume(c)
			if x.feasible(st) {
				x.execBlock(fr, st, tb, b, k)
			}
			st2.assume(Not(c))
			if x.feasible(st2) {
				x.execBlock(fr2, st2, fb, b, k)
			}
			return
		case *ssa.Jump:
			x.execBlock(fr, st, b.Succs[0], b, k)
			return
		case *ssa.Return:
			if fr.depth == 0 && !fr.pure {
				x.checkLoopExits(fr, st, b, nil)
			}
			var res *SV
			switch len(i.Results) {
			case 0:
				res = &SV{}
			case 1:
				res = x.val(fr, st, i.Results[0])
			default:
				res = &SV{}
				for _, r := range i.Results {
					res.Tuple = append(res.Tuple, x.val(fr, st, r))
				}
			}
			k(st, res)
			return
		case *ssa.Panic:
			x.handlePanic(fr, st, i)
			return
		case *ssa.Call:
			rest := j + 1
			x.doCall(fr, st, i, func(st2 *State, fr2 *Frame, res *SV) {
				fr2.vals[i] = res
				x.execRest(fr2, st2, b, rest, k)
			})
			return
		case *ssa.RunDefers:
			if len(fr.defers) > 0 {
				rest := j + 1
				x.runDefers(fr, st, len(fr.defers)-1, func(st2 *State, fr2 *Frame) {
					x.execRest(fr2, st2, b, rest, k)
				})
				return
			}
		default:
			x.execInstr(fr, st, ins)
		}
	}
}

func (x *Exec) runDefers(fr *Frame, st *State, idx int, k func(*State, *Frame)) {
	if idx < 0 {
		fr.defers = nil
		k(st, fr)
		return
	}
	d := fr.defers[idx]
	x.doCallCommon(fr, st, &d.Call, d, func(st2 *State, fr2 *Frame, _ *SV) {
		x.runDefers(fr2, st2, idx-1, k)
	})
}

func (x *Exec) feasible(st *State) bool {
	if st.dead {
		return false
	}
	return x.eng.quickFeasible(x, st)
}

func (x *Exec) handlePanic(fr *Frame, st *State, i *ssa.Panic) {
	if fr.pure {
		st.dead = true
		return
	}
	if fr.depth == 0 && x.unit != nil && x.unit.Con != nil && x.unit.Con.MayPanic {
		st.dead = true
		return
	}
	label := "panic"
	if mi, ok := i.X.(*ssa.MakeInterface); ok {
		if c, ok := mi.X.(*ssa.Const); ok && c.Value != nil {
			label = strings.Trim(c.Value.ExactString(), "\"")
		} else {
			label = x.srcLabel(i.Pos(), "call")
		}
	}
	x.oblige(st, "nopanic", label, x.implicitTags(fr, "panic"), TFalse, i.Pos())
	st.dead = true
}

func (x *Exec) implicitTags(fr *Frame, kind string) []string {
	if x.unit != nil && x.unit.Con != nil && x.unit.Con.ImplicitOnly != nil {
		if t, ok := x.unit.Con.ImplicitOnly[kind]; ok {
			return append([]string{}, t...)
		}
		return []string{"unchecked"}
	}
	tags := append([]string{}, x.eng.implicitTags(fr.fn)...)
	if x.unit != nil && x.unit.Con != nil {
		for _, t := range x.unit.Con.Tags {
			if !hasTag(tags, t) {
				tags = append(tags, t)
			}
		}
	}
	return tags
}

// ---------------------------------------------------------------------------
// straight-line instructions

func (x *Exec) execInstr(fr *Frame, st *State, ins ssa.Instruction) {
	w := x.w
	switch i := ins.(type) {
	case *ssa.DebugRef:
	case *ssa.Alloc:
		et := i.Type().(*types.Pointer).Elem()
		if et.String() == "$ssa.deferStack" || strings.Contains(et.String(), "deferStack") {
			fr.vals[i] = &SV{}
			return
		}
		if !i.Heap {
			fr.cells[i] = w.Zero(et)
			fr.vals[i] = &SV{P: &Ptr{Local: i, Base: et}}
			return
		}
		if fr.pure {
			// pure evaluation may allocate locally escaping cells: model as locals
			fr.cells[i] = w.Zero(et)
			fr.vals[i] = &SV{P: &Ptr{Local: i, Base: et}}
			return
		}
		r := x.newRef(st)
		p := &Ptr{Ref: r, Base: et}
		x.initObject(fr, st, p, et)
		fr.vals[i] = &SV{P: p}
	case *ssa.Store:
		x.curPos = i.Pos()
		addr := x.val(fr, st, i.Addr)
		if addr.P == nil {
			if addr.T == nil && len(addr.Tuple) == 0 && addr.Fn == nil {
				return // deferstack cell
			}
			addr = &SV{P: x.ptrFromTerm(addr.T, i.Addr.Type())}
		}
		v := x.val(fr, st, i.Val)
		if v.T == nil && v.P == nil && v.Fn == nil {
			return // deferstack
		}
		if fr.pure && addr.P.Local == nil {
			unsupportedf("heap store in pure evaluation of %s", fr.fn)
		}
		x.nilCheck(fr, st, addr.P, i.Pos())
		x.Store(fr, st, addr.P, x.svTerm(v))
		if addr.P.Local == nil {
			x.checkRunning(fr, st, i.Pos())
		}
		if v.Fn != nil || v.P != nil {
			// remember engine-side knowledge of the stored value for local cells
			x.rememberCell(fr, addr.P, v)
		}
	case *ssa.UnOp:
		x.execUnOp(fr, st, i)
	case *ssa.BinOp:
		a, b := x.term(fr, st, i.X), x.term(fr, st, i.Y)
		fr.vals[i] = TV(x.binop(fr, st, i.Op, a, b, i.X.Type(), i.Y.Type(), i.Pos()))
	case *ssa.FieldAddr:
		base := x.val(fr, st, i.X)
		st_ := i.X.Type().Underlying().(*types.Pointer).Elem()
		p := base.P
		if p == nil {
			p = x.ptrFromTerm(base.T, i.X.Type())
			if !fr.pure {
				x.oblige(st, "nil", x.srcLabel(i.Pos(), "selector"), x.implicitTags(fr, "nil"), Not(Eq(base.T, IntLit(0, SInt))), i.Pos())
				st.assume(Not(Eq(base.T, IntLit(0, SInt))))
			}
		}
		ft := st_.Underlying().(*types.Struct).Field(i.Field).Type()
		fr.vals[i] = &SV{P: p.with(PathStep{Field: i.Field, T: ft})}
	case *ssa.Field:
		v := x.term(fr, st, i.X)
		fr.vals[i] = TV(w.RecordOfType(i.X.Type()).Get(v, i.Field))
	case *ssa.IndexAddr:
		x.execIndexAddr(fr, st, i)
	case *ssa.Index:
		coll := x.term(fr, st, i.X)
		idx := x.toIS(x.term(fr, st, i.Index), i.Index.Type())
		switch u := i.X.Type().Underlying().(type) {
		case *types.Array:
			x.boundsCheck(fr, st, idx, w.Int(u.Len()), i.Pos(), "index")
			fr.vals[i] = TV(Select(coll, idx))
		case *types.Basic: // string
			x.boundsCheck(fr, st, idx, w.SLen(coll), i.Pos(), "index")
			fr.vals[i] = TV(App("sat", w.byteSort(), coll, idx))
		default:
			unsupportedf("Index on %s", i.X.Type())
		}
	case *ssa.Slice:
		x.execSlice(fr, st, i)
	case *ssa.Extract:
		t := x.val(fr, st, i.Tuple)
		if i.Index >= len(t.Tuple) {
			unsupportedf("extract %d from non-tuple in %s", i.Index, fr.fn)
		}
		fr.vals[i] = t.Tuple[i.Index]
	case *ssa.Phi:
		unsupportedf("phi outside block entry")
	case *ssa.MakeInterface:
		v := x.val(fr, st, i.X)
		var payload *Term
		if v.Fn != nil {
			payload = x.fnTerm(v)
		} else {
			payload = w.Box(i.X.Type(), x.svTerm(v))
		}
		t := w.iface.Make(w.TypeID(i.X.Type()), payload)
		fr.vals[i] = TV(t)
		// remember the instance fact unbox(box(v)) = v
		if s := w.SortOf(i.X.Type()); s != SInt {
			st.assume(Eq(App("unbox_"+typeKey(i.X.Type()), s, payload), x.svTerm(v)))
		}
	case *ssa.ChangeInterface:
		fr.vals[i] = x.val(fr, st, i.X)
	case *ssa.ChangeType:
		v := x.val(fr, st, i.X)
		fr.vals[i] = v
	case *ssa.Convert:
		x.execConvert(fr, st, i)
	case *ssa.TypeAssert:
		x.execTypeAssert(fr, st, i)
	case *ssa.MakeClosure:
		sv := &SV{Fn: i.Fn.(*ssa.Function)}
		for _, b := range i.Bindings {
			sv.Bind = append(sv.Bind, x.val(fr, st, b))
		}
		fr.vals[i] = sv
	case *ssa.MakeSlice:
		ln := x.toIS(x.term(fr, st, i.Len), i.Len.Type())
		cp := x.toIS(x.term(fr, st, i.Cap), i.Cap.Type())
		x.oblige(st, "makeslice", x.srcLabel(i.Pos(), "call"), x.implicitTags(fr, "make"), And(w.Le(w.Int(0), ln), w.Le(ln, cp)), i.Pos())
		st.assume(And(w.Le(w.Int(0), ln), w.Le(ln, cp)))
		et := i.Type().Underlying().(*types.Slice).Elem()
		r := x.newRef(st)
		n, e := x.elemComp(st.heap, et)
		x.setComp(st.heap, n, Store(e, r, ConstArray(ArraySort(w.IS, w.SortOf(et)), w.Zero(et))))
		fr.vals[i] = TV(w.slice.Make(r, w.Int(0), ln, cp))
	case *ssa.MakeMap:
		r := x.newRef(st)
		mt := i.Type().Underlying().(*types.Map)
		vn, mv, dn, md := x.mapComps(st.heap, mt, i.Type())
		x.setComp(st.heap, dn, Store(md, r, ConstArray(ArraySort(w.SortOf(mt.Key()), SBool), TFalse)))
		// cardinality: a new map is empty
		w.declFun("maplen", "(Int "+string(ArraySort(w.SortOf(mt.Key()), SBool))+") "+string(w.IS))
		st.assume(Eq(App("maplen", w.IS, r, ConstArray(ArraySort(w.SortOf(mt.Key()), SBool), TFalse)), w.Int(0)))
		_ = vn
		_ = mv
		fr.vals[i] = TV(r)
	case *ssa.Lookup:
		x.execLookup(fr, st, i)
	case *ssa.MapUpdate:
		m := x.term(fr, st, i.Map)
		mt := i.Map.Type().Underlying().(*types.Map)
		x.oblige(st, "mapnil", x.srcLabel(i.Pos(), "index"), x.implicitTags(fr, "nil"), Not(Eq(m, IntLit(0, SInt))), i.Pos())
		kt, vt := x.term(fr, st, i.Key), x.term(fr, st, i.Value)
		vn, mv, dn, md := x.mapComps(st.heap, mt, i.Map.Type())
		{
			// cardinality: an insertion adds one element exactly when the key was absent (ground instance
			// of |d[k := true]| = |d| + (k in d ? 0 : 1) for this update)
			w.declFun("maplen", "(Int "+string(ArraySort(w.SortOf(mt.Key()), SBool))+") "+string(w.IS))
			oldD := Select(md, m)
			newD := Store(oldD, kt, TTrue)
			st.assume(w.Le(w.Int(0), App("maplen", w.IS, m, oldD)))
			st.assume(Eq(App("maplen", w.IS, m, newD), w.Add(App("maplen", w.IS, m, oldD), Ite(Select(oldD, kt), w.Int(0), w.Int(1)))))
		}
		x.setComp(st.heap, vn, Store(mv, m, Store(Select(mv, m), kt, vt)))
		x.setComp(st.heap, dn, Store(md, m, Store(Select(md, m), kt, TTrue)))
		x.noteWrite(vn, m)
		x.noteWrite(dn, m)
	case *ssa.Defer:
		fr.defers = append(fr.defers, i)
	case *ssa.Range, *ssa.Next:
		unsupportedf("range over map/string in %s", fr.fn)
	case *ssa.Go, *ssa.Select, *ssa.Send, *ssa.MakeChan:
		unsupportedf("concurrency construct in %s", fr.fn)
	default:
		unsupportedf("instruction %T in %s", ins, fr.fn)
	}
}

func (x *Exec) rememberCell(fr *Frame, p *Ptr, v *SV) {}

// initObject zero-initialises a fresh heap object.
func (x *Exec) initObject(fr *Frame, st *State, p *Ptr, t types.Type) {
	x.Store(fr, st, p, x.w.Zero(t))
}

func (x *Exec) ptrFromTerm(t *Term, pt types.Type) *Ptr {
	ptr, ok := pt.Underlying().(*types.Pointer)
	if !ok {
		unsupportedf("pointer term of non-pointer type %s", pt)
	}
	if t != nil && t.Op == "elemptr" && len(t.Args) == 2 {
		return &Ptr{Ref: t.Args[0], Elem: t.Args[1], Base: ptr.Elem()}
	}
	return &Ptr{Ref: t, Base: ptr.Elem()}
}

func (x *Exec) nilCheck(fr *Frame, st *State, p *Ptr, pos token.Pos) {
	if p.Local != nil || p.Global != nil || p.Elem != nil || p.Ref == nil {
		return
	}
	if len(p.Path) > 0 {
		return // checked at FieldAddr
	}
	nz := Not(Eq(p.Ref, IntLit(0, SInt)))
	if fr.pure {
		return
	}
	x.oblige(st, "nil", x.srcLabel(pos, "deref"), x.implicitTags(fr, "nil"), nz, pos)
	st.assume(nz)
}

func (x *Exec) boundsCheck(fr *Frame, st *State, idx, ln *Term, pos token.Pos, kind string) {
	w := x.w
	g := And(w.Le(w.Int(0), idx), w.Lt(idx, ln))
	if fr.pure {
		return
	}
	x.oblige(st, kind, x.srcLabel(pos, "index"), x.implicitTags(fr, "index"), g, pos)
	st.assume(g)
}

// toIS converts an integer term of Go type t to the index sort.
func (x *Exec) toIS(v *Term, t types.Type) *Term {
	if v.Sort == x.w.IS {
		return v
	}
	return x.convInt(v, t, types.Typ[types.Int])
}

func (x *Exec) execUnOp(fr *Frame, st *State, i *ssa.UnOp) {
	w := x.w
	switch i.Op {
	case token.MUL: // load
		a := x.val(fr, st, i.X)
		if a.P == nil {
			if a.T == nil {
				fr.vals[i] = &SV{}
				return
			}
			a = &SV{P: x.ptrFromTerm(a.T, i.X.Type())}
		}
		x.nilCheck(fr, st, a.P, i.Pos())
		v := x.Load(fr, st, a.P)
		t := a.P.targetType()
		if needsValidity(t, 0) && (a.P.Local == nil) {
			x.assumeValid(st, v, t, 0)
		}
		fr.vals[i] = TV(v)
	case token.NOT:
		fr.vals[i] = TV(Not(x.term(fr, st, i.X)))
	case token.SUB:
		v := x.term(fr, st, i.X)
		if v.Sort == SF64 {
			fr.vals[i] = TV(App("fp.neg", SF64, v))
		} else if v.Sort == SInt {
			fr.vals[i] = TV(w.Sub(IntLit(0, SInt), v))
		} else {
			fr.vals[i] = TV(App("bvneg", v.Sort, v))
		}
	case token.XOR:
		v := x.term(fr, st, i.X)
		if v.Sort == SInt {
			w.declFun("bnot", "(Int) Int")
			fr.vals[i] = TV(App("bnot", SInt, v))
		} else {
			fr.vals[i] = TV(App("bvnot", v.Sort, v))
		}
	default:
		unsupportedf("unop %s", i.Op)
	}
}

func (x *Exec) execIndexAddr(fr *Frame, st *State, i *ssa.IndexAddr) {
	w := x.w
	idx := x.toIS(x.term(fr, st, i.Index), i.Index.Type())
	switch u := i.X.Type().Underlying().(type) {
	case *types.Slice:
		s := x.term(fr, st, i.X)
		x.boundsCheck(fr, st, idx, w.slice.Get(s, 2), i.Pos(), "index")
		fr.vals[i] = &SV{P: &Ptr{Ref: w.slice.Get(s, 0), Elem: w.Add(w.slice.Get(s, 1), idx), Base: u.Elem()}}
	case *types.Pointer:
		at := u.Elem().Underlying().(*types.Array)
		base := x.val(fr, st, i.X)
		p := base.P
		if p == nil {
			p = x.ptrFromTerm(base.T, i.X.Type())
		}
		x.boundsCheck(fr, st, idx, w.Int(at.Len()), i.Pos(), "index")
		fr.vals[i] = &SV{P: p.with(PathStep{Field: -1, Index: idx, T: at.Elem()})}
	default:
		unsupportedf("IndexAddr on %s", i.X.Type())
	}
}

func (x *Exec) execSlice(fr *Frame, st *State, i *ssa.Slice) {
	w := x.w
	opt := func(v ssa.Value) *Term {
		if v == nil {
			return nil
		}
		return x.toIS(x.term(fr, st, v), v.Type())
	}
	lo, hi, mx := opt(i.Low), opt(i.High), opt(i.Max)
	tags := x.implicitTags(fr, "slice")
	label := x.srcLabel(i.Pos(), "slice")
	switch u := i.X.Type().Underlying().(type) {
	case *types.Slice:
		s := x.term(fr, st, i.X)
		arr, off, ln, cp := w.slice.Get(s, 0), w.slice.Get(s, 1), w.slice.Get(s, 2), w.slice.Get(s, 3)
		if lo == nil {
			lo = w.Int(0)
		}
		if hi == nil {
			hi = ln
		}
		bound := cp
		newcap := w.Sub(cp, lo)
		if mx != nil {
			bound = mx
			newcap = w.Sub(mx, lo)
		}
		g := And(w.Le(w.Int(0), lo), w.Le(lo, hi), w.Le(hi, bound), w.Le(bound, cp))
		if !fr.pure {
			x.oblige(st, "slice", label, tags, g, i.Pos())
			st.assume(g)
		}
		fr.vals[i] = TV(w.slice.Make(arr, w.Add(off, lo), w.Sub(hi, lo), newcap))
	case *types.Basic: // string
		s := x.term(fr, st, i.X)
		if lo == nil {
			lo = w.Int(0)
		}
		if hi == nil {
			hi = w.SLen(s)
		}
		g := And(w.Le(w.Int(0), lo), w.Le(lo, hi), w.Le(hi, w.SLen(s)))
		if !fr.pure {
			x.oblige(st, "slice", label, tags, g, i.Pos())
			st.assume(g)
		}
		fr.vals[i] = TV(App("ssub", SStr, s, lo, hi))
	case *types.Pointer: // *[N]T
		at := u.Elem().Underlying().(*types.Array)
		base := x.val(fr, st, i.X)
		p := base.P
		if p == nil {
			p = x.ptrFromTerm(base.T, i.X.Type())
		}
		if p.Ref == nil || p.Elem != nil || len(p.Path) > 0 {
			// slicing a local array: copy it to a fresh heap array
			if (p.Local != nil || p.Global != nil) && len(p.Path) == 0 {
				r := x.newRef(st)
				n, e := x.elemComp(st.heap, at.Elem())
				x.setComp(st.heap, n, Store(e, r, x.loadBase(fr, st.heap, p)))
				// NOTE: aliasing between the local array and the slice is not modelled; the local is not used afterwards in the patterns present
				p = &Ptr{Ref: r, Base: u.Elem()}
				x.notes = append(x.notes, "slice of local array copied to heap in "+fr.fn.String())
			} else {
				unsupportedf("slice of interior array pointer %s", p)
			}
		}
		n := w.Int(at.Len())
		if lo == nil {
			lo = w.Int(0)
		}
		if hi == nil {
			hi = n
		}
		g := And(w.Le(w.Int(0), lo), w.Le(lo, hi), w.Le(hi, n))
		if !fr.pure {
			x.oblige(st, "slice", label, tags, g, i.Pos())
			st.assume(g)
		}
		fr.vals[i] = TV(w.slice.Make(p.Ref, lo, w.Sub(hi, lo), w.Sub(n, lo)))
	default:
		unsupportedf("Slice on %s", i.X.Type())
	}
}

func (x *Exec) execLookup(fr *Frame, st *State, i *ssa.Lookup) {
	w := x.w
	switch u := i.X.Type().Underlying().(type) {
	case *types.Map:
		m := x.term(fr, st, i.X)
		k := x.term(fr, st, i.Index)
		_, mv, _, md := x.mapComps(st.heap, u, i.X.Type())
		in := And(Not(Eq(m, IntLit(0, SInt))), Select(Select(md, m), k))
		v := Ite(in, Select(Select(mv, m), k), w.Zero(u.Elem()))
		if needsValidity(u.Elem(), 0) {
			x.assumeValid(st, Select(Select(mv, m), k), u.Elem(), 0)
		}
		if i.CommaOk {
			fr.vals[i] = &SV{Tuple: []*SV{TV(v), TV(in)}}
		} else {
			fr.vals[i] = TV(v)
		}
	case *types.Basic:
		s := x.term(fr, st, i.X)
		idx := x.toIS(x.term(fr, st, i.Index), i.Index.Type())
		x.boundsCheck(fr, st, idx, w.SLen(s), i.Pos(), "index")
		fr.vals[i] = TV(App("sat", w.byteSort(), s, idx))
	default:
		unsupportedf("Lookup on %s", i.X.Type())
	}
}

func (x *Exec) execTypeAssert(fr *Frame, st *State, i *ssa.TypeAssert) {
	w := x.w
	v := x.term(fr, st, i.X)
	tag, payload := w.iface.Get(v, 0), w.iface.Get(v, 1)
	var ok *Term
	var res *Term
	if _, isIface := i.AssertedType.Underlying().(*types.Interface); isIface {
		ids := x.eng.implementers(w, i.AssertedType)
		if ids == nil {
			// closed source interface: the value's dynamic type is one of its implementers
			if src := x.eng.implementerTypes(i.X.Type()); src != nil {
				if tgt, ok := i.AssertedType.Underlying().(*types.Interface); ok {
					ids = []*Term{}
					for _, t := range src {
						if types.Implements(t, tgt) {
							ids = append(ids, w.TypeID(t))
						}
					}
				}
			}
		}
		if ids == nil {
			x.w.declFun("implements_"+typeKey(i.AssertedType), "(Int) Bool")
			ok = And(Not(Eq(tag, IntLit(0, SInt))), App("implements_"+typeKey(i.AssertedType), SBool, tag))
		} else {
			var alts []*Term
			for _, id := range ids {
				alts = append(alts, Eq(tag, id))
			}
			ok = Or(alts...)
		}
		res = v
	} else {
		ok = Eq(tag, w.TypeID(i.AssertedType))
		res = w.Unbox(i.AssertedType, payload)
	}
	if i.CommaOk {
		zero := w.Zero(i.AssertedType)
		fr.vals[i] = &SV{Tuple: []*SV{TV(Ite(ok, res, zero)), TV(ok)}}
		return
	}
	if !fr.pure {
		x.oblige(st, "typeassert", x.srcLabel(i.Pos(), "typeassert"), x.implicitTags(fr, "typeassert"), ok, i.Pos())
	}
	st.assume(ok)
	fr.vals[i] = TV(res)
}

// ---------------------------------------------------------------------------
// conversions and arithmetic

func (x *Exec) convInt(v *Term, from, to types.Type) *Term {
	w := x.w
	fs, ts := w.SortOf(from), w.SortOf(to)
	if w.Mode == "int" {
		return v // mathematical integers (assumption: no wrap on conversion)
	}
	fw, tw := fs.BVWidth(), ts.BVWidth()
	switch {
	case fw == tw:
		return v
	case fw > tw:
		if v.isLit {
			return IntLitBig(v.lit, ts)
		}
		return App(fmt.Sprintf("(_ extract %d 0)", tw-1), ts, v)
	default:
		if v.isLit {
			if !isUnsigned(from) && v.lit.Bit(fw-1) == 1 {
				// negative: sign extend
				return App(fmt.Sprintf("(_ sign_extend %d)", tw-fw), ts, v)
			}
			return IntLitBig(v.lit, ts)
		}
		if isUnsigned(from) {
			return App(fmt.Sprintf("(_ zero_extend %d)", tw-fw), ts, v)
		}
		return App(fmt.Sprintf("(_ sign_extend %d)", tw-fw), ts, v)
	}
}

func (x *Exec) execConvert(fr *Frame, st *State, i *ssa.Convert) {
	w := x.w
	from, to := i.X.Type(), i.Type()
	sv := x.val(fr, st, i.X)
	fu, tu := from.Underlying(), to.Underlying()
	// unsafe.Pointer conversions
	if fb, ok := fu.(*types.Basic); ok && fb.Kind() == types.UnsafePointer {
		if tp, ok := tu.(*types.Pointer); ok {
			if sv.P != nil {
				q := *sv.P
				if !types.Identical(q.targetTypeNoCast(), tp.Elem()) {
					q.Cast = tp.Elem()
				} else {
					q.Cast = nil
				}
				fr.vals[i] = &SV{P: &q}
			} else {
				fr.vals[i] = &SV{P: &Ptr{Ref: sv.T, Base: tp.Elem()}}
			}
			return
		}
		fr.vals[i] = sv
		return
	}
	if tb, ok := tu.(*types.Basic); ok && tb.Kind() == types.UnsafePointer {
		fr.vals[i] = sv
		return
	}
	v := x.svTerm(sv)
	fb, fok := fu.(*types.Basic)
	tb, tok := tu.(*types.Basic)
	if fok && tok {
		fi, ti := fb.Info(), tb.Info()
		switch {
		case fi&types.IsInteger != 0 && ti&types.IsInteger != 0:
			fr.vals[i] = TV(x.convInt(v, from, to))
			return
		case fi&types.IsInteger != 0 && ti&types.IsFloat != 0:
			if w.Mode == "bv" {
				op := "(_ to_fp 11 53) RNE"
				if isUnsigned(from) {
					op = "(_ to_fp_unsigned 11 53) RNE"
				}
				fr.vals[i] = TV(App(op, SF64, v))
			} else {
				fr.vals[i] = TV(App("(_ to_fp 11 53) RNE", SF64, App("to_real", "Real", v)))
			}
			return
		case fi&types.IsFloat != 0 && ti&types.IsInteger != 0:
			if w.Mode == "bv" {
				fr.vals[i] = TV(App(fmt.Sprintf("(_ fp.to_sbv %d) RTZ", w.SortOf(to).BVWidth()), w.SortOf(to), v))
			} else {
				w.declFun("f2i", "("+string(SF64)+") Int")
				fr.vals[i] = TV(App("f2i", SInt, v))
			}
			return
		case fi&types.IsFloat != 0 && ti&types.IsFloat != 0:
			fr.vals[i] = TV(v)
			return
		case fi&types.IsInteger != 0 && ti&types.IsString != 0:
			if fb.Kind() == types.Uint8 {
				fr.vals[i] = TV(App("sbyte", SStr, v))
			} else {
				w.declFun("srune", "("+string(v.Sort)+") Str")
				fr.vals[i] = TV(App("srune", SStr, v))
			}
			return
		case fi&types.IsString != 0 && ti&types.IsString != 0:
			fr.vals[i] = TV(v)
			return
		}
	}
	if w.SortOf(from) == w.SortOf(to) {
		fr.vals[i] = TV(v)
		return
	}
	// []byte / []rune -> string and back: the content is not modelled, only the length
	if sl, ok := from.Underlying().(*types.Slice); ok {
		if tb, ok := to.Underlying().(*types.Basic); ok && tb.Info()&types.IsString != 0 {
			if eb, ok := sl.Elem().Underlying().(*types.Basic); ok && eb.Kind() == types.Uint8 {
				r := w.Fresh("bytes2str", SStr)
				st.assume(Eq(w.SLen(r), w.slice.Get(v, 2)))
				st.assume(Imp(Eq(w.slice.Get(v, 2), w.Int(0)), Eq(r, w.ConstTerm(constant.MakeString(""), types.Typ[types.String]))))
				x.notes = append(x.notes, "string([]byte) conversion: only the length of the result is modelled")
				fr.vals[i] = TV(r)
				return
			}
		}
	}
	unsupportedf("convert %s -> %s", from, to)
}

func (p *Ptr) targetTypeNoCast() types.Type {
	if len(p.Path) > 0 {
		return p.Path[len(p.Path)-1].T
	}
	return p.Base
}

func (x *Exec) binop(fr *Frame, st *State, op token.Token, a, b *Term, ta, tb types.Type, pos token.Pos) *Term {
	w := x.w
	if a.Sort == "BC" && b.Sort == "BC" {
		switch op {
		case token.OR:
			return w.BCOr(a, b)
		case token.EQL:
			return Eq(a, b)
		case token.NEQ:
			return Not(Eq(a, b))
		}
		unsupportedf("operator %s on abstract instruction words", op)
	}
	ub, _ := ta.Underlying().(*types.Basic)
	isInt := ub != nil && ub.Info()&types.IsInteger != 0
	isFloat := ub != nil && ub.Info()&types.IsFloat != 0
	isStr := ub != nil && ub.Info()&types.IsString != 0
	unsigned := isInt && ub.Info()&types.IsUnsigned != 0
	switch op {
	case token.EQL, token.NEQ:
		var e *Term
		if isFloat {
			e = App("fp.eq", SBool, a, b)
		} else {
			if a.Sort != b.Sort {
				unsupportedf("== on different sorts %s %s", a.Sort, b.Sort)
			}
			if a.Sort == SIfc && fr != nil && !fr.pure {
				x.ifaceCmpCheck(fr, st, a, b, pos)
			}
			e = Eq(a, b)
		}
		if op == token.NEQ {
			return Not(e)
		}
		return e
	}
	if isFloat {
		switch op {
		case token.ADD:
			return App("fp.add RNE", SF64, a, b)
		case token.SUB:
			return App("fp.sub RNE", SF64, a, b)
		case token.MUL:
			return App("fp.mul RNE", SF64, a, b)
		case token.QUO:
			return App("fp.div RNE", SF64, a, b)
		case token.LSS:
			return App("fp.lt", SBool, a, b)
		case token.LEQ:
			return App("fp.leq", SBool, a, b)
		case token.GTR:
			return App("fp.gt", SBool, a, b)
		case token.GEQ:
			return App("fp.geq", SBool, a, b)
		}
		unsupportedf("float op %s", op)
	}
	if isStr {
		switch op {
		case token.ADD:
			return App("sconcat", SStr, a, b)
		default:
			w.declFun("slt", "(Str Str) Bool")
			switch op {
			case token.LSS:
				return App("slt", SBool, a, b)
			case token.GTR:
				return App("slt", SBool, b, a)
			case token.LEQ:
				return Not(App("slt", SBool, b, a))
			case token.GEQ:
				return Not(App("slt", SBool, a, b))
			}
		}
		unsupportedf("string op %s", op)
	}
	if !isInt {
		unsupportedf("binop %s on %s", op, ta)
	}
	// shifts: bring the count to the operand's sort
	if op == token.SHL || op == token.SHR {
		if w.Mode == "bv" {
			cnt := b
			if !isUnsigned(tb) && fr != nil && !fr.pure {
				g := App("bvsge", SBool, b, IntLit(0, b.Sort))
				x.oblige(st, "shift", x.srcLabel(pos, "binary"), x.implicitTags(fr, "shift"), g, pos)
				st.assume(g)
			}
			aw, bw := a.Sort.BVWidth(), b.Sort.BVWidth()
			if bw < aw {
				cnt = App(fmt.Sprintf("(_ zero_extend %d)", aw-bw), a.Sort, b)
			} else if bw > aw {
				// count >= width gives 0 / sign; saturate
				low := App(fmt.Sprintf("(_ extract %d 0)", aw-1), a.Sort, b)
				cnt = Ite(App("bvuge", SBool, b, IntLit(int64(aw), b.Sort)), IntLit(int64(aw), a.Sort), low)
			}
			if op == token.SHL {
				return App("bvshl", a.Sort, a, cnt)
			}
			if unsigned {
				return App("bvlshr", a.Sort, a, cnt)
			}
			return App("bvashr", a.Sort, a, cnt)
		}
		if b.isLit && op == token.SHL && b.lit.IsInt64() && b.lit.Int64() < 63 {
			return w.Mul(a, IntLit(1<<uint(b.lit.Int64()), SInt))
		}
		name := "bshl"
		if op == token.SHR {
			name = "bshr"
		}
		w.declFun(name, "(Int Int) Int")
		return App(name, SInt, a, b)
	}
	if a.Sort != b.Sort {
		unsupportedf("int binop %s sort mismatch %s %s", op, a.Sort, b.Sort)
	}
	switch op {
	case token.ADD:
		return w.Add(a, b)
	case token.SUB:
		return w.Sub(a, b)
	case token.MUL:
		return w.Mul(a, b)
	case token.QUO, token.REM:
		zero := IntLit(0, a.Sort)
		if fr != nil && !fr.pure {
			nz := Not(Eq(b, zero))
			x.oblige(st, "div", x.srcLabel(pos, "binary"), x.implicitTags(fr, "div"), nz, pos)
			st.assume(nz)
		}
		if w.Mode == "bv" {
			switch {
			case op == token.QUO && unsigned:
				return App("bvudiv", a.Sort, a, b)
			case op == token.QUO:
				return App("bvsdiv", a.Sort, a, b)
			case unsigned:
				return App("bvurem", a.Sort, a, b)
			default:
				return App("bvsrem", a.Sort, a, b)
			}
		}
		// truncated division on Int
		if b.isLit && b.lit.Sign() > 0 {
			neg := App("-", SInt, a)
			q := Ite(App(">=", SBool, a, zero), App("div", SInt, a, b), App("-", SInt, App("div", SInt, neg, b)))
			if op == token.QUO {
				return q
			}
			return Ite(App(">=", SBool, a, zero), App("mod", SInt, a, b), App("-", SInt, App("mod", SInt, neg, b)))
		}
		q := Ite(App(">=", SBool, a, zero),
			Ite(App(">", SBool, b, zero), App("div", SInt, a, b), App("-", SInt, App("div", SInt, a, App("-", SInt, b)))),
			Ite(App(">", SBool, b, zero), App("-", SInt, App("div", SInt, App("-", SInt, a), b)), App("div", SInt, App("-", SInt, a), App("-", SInt, b))))
		if op == token.QUO {
			return q
		}
		return w.Sub(a, w.Mul(q, b))
	case token.AND, token.OR, token.XOR, token.AND_NOT:
		if w.Mode == "bv" {
			switch op {
			case token.AND:
				return App("bvand", a.Sort, a, b)
			case token.OR:
				return App("bvor", a.Sort, a, b)
			case token.XOR:
				return App("bvxor", a.Sort, a, b)
			default:
				return App("bvand", a.Sort, a, App("bvnot", a.Sort, b))
			}
		}
		if t := x.eng.intModeBitop(x, op, a, b, ta); t != nil {
			return t
		}
		name := map[token.Token]string{token.AND: "band", token.OR: "bor", token.XOR: "bxor", token.AND_NOT: "bandnot"}[op]
		w.declFun(name, "(Int Int) Int")
		return App(name, SInt, a, b)
	case token.LSS:
		if unsigned {
			return w.LtU(a, b)
		}
		return w.Lt(a, b)
	case token.LEQ:
		if unsigned {
			return w.LeU(a, b)
		}
		return w.Le(a, b)
	case token.GTR:
		if unsigned {
			return w.LtU(b, a)
		}
		return w.Lt(b, a)
	case token.GEQ:
		if unsigned {
			return w.LeU(b, a)
		}
		return w.Le(b, a)
	}
	unsupportedf("binop %s", op)
	return nil
}

// ifaceCmpCheck: comparing two interface values panics at run time when the
// (equal) dynamic types are not comparable.
func (x *Exec) ifaceCmpCheck(fr *Frame, st *State, a, b *Term, pos token.Pos) {
	w := x.w
	ta, tb := w.iface.Get(a, 0), w.iface.Get(b, 0)
	// if either side's tag is a known literal of a comparable type, fine
	bad := x.eng.uncomparableIDs(w)
	if len(bad) == 0 {
		return
	}
	var alts []*Term
	for _, id := range bad {
		alts = append(alts, And(Eq(ta, id), Eq(tb, id)))
	}
	g := Not(Or(alts...))
	x.oblige(st, "ifacecmp", x.srcLabel(pos, "binary"), x.implicitTags(fr, "ifacecmp"), g, pos)
	st.assume(g)
}

// ---------------------------------------------------------------------------
// phis at block entry are handled here (naive form has few)

func (x *Exec) bindPhis(fr *Frame, st *State, b, prev *ssa.BasicBlock) {
	if prev == nil {
		return
	}
	idx := -1
	for j, p := range b.Preds {
		if p == prev {
			idx = j
			break
		}
	}
	var vals []*SV
	var phis []*ssa.Phi
	for _, ins := range b.Instrs {
		phi, ok := ins.(*ssa.Phi)
		if !ok {
			break
		}
		phis = append(phis, phi)
		vals = append(vals, x.val(fr, st, phi.Edges[idx]))
	}
	for j, phi := range phis {
		fr.vals[phi] = vals[j]
	}
}

// ---------------------------------------------------------------------------
// loops

type loopDesc struct {
	head    *ssa.BasicBlock
	ordinal int
	body    map[*ssa.BasicBlock]bool
}

type loopInfo struct {
	headers map[*ssa.BasicBlock]*loopDesc
}

func computeLoops(fn *ssa.Function) *loopInfo {
	li := &loopInfo{headers: map[*ssa.BasicBlock]*loopDesc{}}
	for _, b := range fn.Blocks {
		for _, s := range b.Succs {
			if s.Dominates(b) { // back edge b -> s
				lp := li.headers[s]
				if lp == nil {
					lp = &loopDesc{head: s, body: map[*ssa.BasicBlock]bool{s: true}}
					li.headers[s] = lp
				}
				// natural loop: nodes that reach b without passing s
				stack := []*ssa.BasicBlock{b}
				for len(stack) > 0 {
					n := stack[len(stack)-1]
					stack = stack[:len(stack)-1]
					if lp.body[n] {
						continue
					}
					lp.body[n] = true
					stack = append(stack, n.Preds...)
				}
			}
		}
	}
	var hs []*ssa.BasicBlock
	for h := range li.headers {
		hs = append(hs, h)
	}
	sort.Slice(hs, func(i, j int) bool { return hs[i].Index < hs[j].Index })
	for i, h := range hs {
		li.headers[h].ordinal = i
	}
	if len(hs) == 0 {
		return nil
	}
	return li
}

// enterLoopHead implements the invariant cut. Returns false if the path ends.
func (x *Exec) enterLoopHead(fr *Frame, st *State, b, prev *ssa.BasicBlock, lp *loopDesc) bool {
	if fr.pure {
		unsupportedf("loop in pure evaluation of %s", fr.fn)
	}
	spec := x.eng.loopSpec(fr.fn, lp.ordinal)
	if spec == nil && fr.depth > 0 && x.eng.unrollable(fr.fn) {
		// inlined helper whose loops run over a slice of literal length at this call site:
		// the loop is unrolled (execution simply continues; the revisit limit bounds it)
		return true
	}
	fromInside := prev != nil && lp.body[prev]
	envf := func() *Env { return x.loopEnv(fr, st) }
	if fromInside {
		if fr.depth == 0 && x.unit.Con != nil && !x.unit.Con.ModifiesAll && x.modLocs != nil {
			x.frameObligations(st, x.unit.Con, b.Instrs[0].Pos())
		}
		if spec != nil {
			for _, c := range spec.Invariants {
				g := x.evalClauseBool(c, envf(), st)
				x.oblige(st, "invariant", fmt.Sprintf("loop%d:%s:preserved", lp.ordinal, c.Label), c.Tags, g, b.Instrs[0].Pos())
			}
			if fr.depth == 0 && fr.iterHeap != nil {
				for _, c := range spec.Steps {
					g := x.evalClauseBool(c, envf(), st)
					x.oblige(st, "step", fmt.Sprintf("loop%d:%s", lp.ordinal, c.Label), c.Tags, g, b.Instrs[0].Pos())
				}
			}
			if spec.Decreases != nil {
				cur := x.evalClauseInt(spec.Decreases, envf(), st)
				old := fr.loopVar[b]
				if old != nil {
					g := And(x.w.Lt(cur, old), x.w.Le(x.w.Int(0), old))
					x.oblige(st, "decreases", fmt.Sprintf("loop%d", lp.ordinal), spec.Decreases.Tags, g, b.Instrs[0].Pos())
				}
			}
		} else {
			// no invariant: paths simply end at the back edge (invariant true)
		}
		return false
	}
	// entry from outside: establish, havoc, assume
	if spec != nil {
		for _, c := range spec.Invariants {
			g := x.evalClauseBool(c, envf(), st)
			x.oblige(st, "invariant", fmt.Sprintf("loop%d:%s:entry", lp.ordinal, c.Label), c.Tags, g, b.Instrs[0].Pos())
		}
	}
	x.havocLoop(fr, st, lp)
	if spec != nil {
		for _, c := range spec.Invariants {
			st.assume(x.evalClauseBool(c, envf(), st))
		}
		if spec.Decreases != nil {
			fr.loopVar[b] = x.evalClauseInt(spec.Decreases, envf(), st)
		}
	}
	if fr.depth == 0 && lp.ordinal == 0 {
		fr.iterHeap = st.heap.clone()
		fr.iterCells = make(map[*ssa.Alloc]*Term, len(fr.cells))
		for k, v := range fr.cells {
			fr.iterCells[k] = v
		}
	}
	// a loop head entered afresh may be visited again by an outer loop iteration: reset counter
	return true
}

// checkLoopExits: obligations of `loop N exit[...]` clauses on the edge from -> to when it leaves the body of
// loop N (to == nil: a return inside the body).
func (x *Exec) checkLoopExits(fr *Frame, st *State, from, to *ssa.BasicBlock) {
	li := x.eng.loopInfo(fr.fn)
	if li == nil || fr.iterHeap == nil {
		return
	}
	for _, lp := range li.headers {
		if lp.ordinal != 0 || !lp.body[from] || (to != nil && lp.body[to]) {
			continue
		}
		spec := x.eng.loopSpec(fr.fn, lp.ordinal)
		if spec == nil {
			continue
		}
		for _, c := range spec.Exits {
			g := x.evalClauseBool(c, x.loopEnv(fr, st), st)
			x.oblige(st, "exit", fmt.Sprintf("loop%d:%s", lp.ordinal, c.Label), c.Tags, g, from.Instrs[len(from.Instrs)-1].Pos())
		}
	}
}

// checkRunning proves and then assumes the unit's running invariants (stepping stones) after a
// heap-modifying step of the function under verification.
func (x *Exec) checkRunning(fr *Frame, st *State, pos token.Pos) {
	if fr.depth != 0 || fr.pure || x.unit == nil || x.unit.Con == nil || len(x.unit.Con.Running) == 0 || x.inRunning {
		return
	}
	x.inRunning = true
	defer func() { x.inRunning = false }()
	env := &Env{x: x, vars: x.entryEnv, heap: st.heap, old: x.heap0}
	for _, c := range x.unit.Con.Running {
		g := x.evalClauseBool(c, env, st)
		x.oblige(st, "running", c.Label, c.Tags, g, pos)
		st.assume(g)
	}
}

// atCut implements a join-point cut: the first path to arrive proves the cut invariant, forgets the
// listed locals and the path-specific part of the path condition, assumes the invariant and goes
// on; every later path only proves the invariant (its state must agree with the first one on
// everything that is not forgotten) and ends there.
func (x *Exec) atCut(fr *Frame, st *State, b *ssa.BasicBlock, cut *Clause) bool {
	env := x.loopEnv(fr, st)
	g := x.evalClauseBool(cut, env, st)
	x.oblige(st, "invariant", cut.Label, cut.Tags, g, b.Instrs[0].Pos())
	hav := map[string]bool{}
	for _, h := range cut.Havoc {
		hav[h] = true
	}
	sig := func() string {
		var sb strings.Builder
		var names []string
		byName := map[string]*ssa.Alloc{}
		for a := range fr.cells {
			n := fmt.Sprintf("%s@%d", a.Comment, a.Pos())
			names = append(names, n)
			byName[n] = a
		}
		sort.Strings(names)
		for _, n := range names {
			if hav[byName[n].Comment] {
				continue
			}
			sb.WriteString(n + "=" + fr.cells[byName[n]].String() + ";")
		}
		var cs []string
		for c := range st.heap.comps {
			cs = append(cs, c)
		}
		sort.Strings(cs)
		for _, c := range cs {
			sb.WriteString(c + "=" + st.heap.comps[c].String() + ";")
		}
		sb.WriteString("alloc=" + st.heap.alloc.String())
		return sb.String()
	}
	if x.cutSeen == nil {
		x.cutSeen = map[string]string{}
	}
	// paths are merged only if they share the path condition up to the dominating block
	prefix := ""
	if idom := b.Idom(); idom != nil {
		if n, ok := fr.pcAt[idom]; ok && n <= len(st.pc) {
			var sb strings.Builder
			for _, t := range st.pc[:n] {
				sb.WriteString(t.String())
				sb.WriteByte(';')
			}
			prefix = sb.String()
		}
	}
	key := fmt.Sprintf("%p|%s", b, prefix)
	if first, ok := x.cutSeen[key]; ok {
		if first != sig() {
			unsupportedf("paths reaching cut %s of %s differ in state that the cut does not forget", cut.Label, fr.fn)
		}
		return false
	}
	x.cutSeen[key] = sig()
	// forget: listed locals and the path condition accumulated since the dominating block
	for a := range fr.cells {
		if hav[a.Comment] {
			et := a.Type().(*types.Pointer).Elem()
			fr.cells[a] = x.freshOfType(st, "cut."+a.Comment, et).T
		}
	}
	if idom := b.Idom(); idom != nil {
		if n, ok := fr.pcAt[idom]; ok && n <= len(st.pc) {
			st.pc = append([]*Term(nil), st.pc[:n]...)
			st.known = map[string]bool{}
			for _, t := range st.pc {
				st.known[t.String()] = true
			}
		}
	}
	st.assume(x.evalClauseBool(cut, x.loopEnv(fr, st), st))
	return true
}

// havocLoop forgets everything the loop body may write.
func (x *Exec) havocLoop(fr *Frame, st *State, lp *loopDesc) {
	eff := &effects{allocs: map[*ssa.Alloc]bool{}, comps: map[string]bool{}}
	for b := range lp.body {
		for _, ins := range b.Instrs {
			x.eng.instrEffects(x, fr.fn, ins, eff, 0)
		}
	}
	for a := range eff.allocs {
		if _, ok := fr.cells[a]; ok {
			et := a.Type().(*types.Pointer).Elem()
			nv := x.freshOfType(st, "lh."+a.Comment, et)
			fr.cells[a] = nv.T
		}
	}
	if os.Getenv("GOVC_DEBUG_EFF") != "" {
		fmt.Fprintf(os.Stderr, "havocLoop %s loop%d all=%v comps=%v\n", fr.fn, lp.ordinal, eff.all, eff.comps)
	}
	if eff.all {
		x.havocAllHeap(st)
		return
	}
	names := make([]string, 0, len(eff.comps))
	for c := range eff.comps {
		names = append(names, c)
	}
	sort.Strings(names)
	for _, c := range names {
		s, ok := x.compSorts[c]
		if !ok {
			s = x.eng.compSortByName(x, c)
			if s == "" {
				// not touched on this path yet: remember the havoc for the first touch
				if st.heap.pending == nil {
					st.heap.pending = map[string]string{}
				}
				x.epochN++
				st.heap.pending[c] = fmt.Sprintf("p%d", x.epochN)
				continue
			}
		}
		old := x.compOf(st.heap, c, s)
		nv := x.w.Fresh("lh."+c, s)
		st.heap.comps[c] = nv
		x.writes[c] = true
		// objects allocated before the loop that the function may not modify stay the same
		x.assumeFrameFor(st, c, old, nv)
	}
	if eff.allocates {
		na := x.w.Fresh("alloc", SInt)
		st.assume(App("<=", SBool, st.heap.alloc, na))
		st.heap.alloc = na
	}
}

func (x *Exec) havocAllHeap(st *State) {
	names := make([]string, 0, len(st.heap.comps))
	for c := range st.heap.comps {
		names = append(names, c)
	}
	sort.Strings(names)
	for _, c := range names {
		if strings.HasPrefix(c, "G!") && x.eng.globalIsConstant(c) {
			continue
		}
		st.heap.comps[c] = x.w.Fresh("hv."+c, x.compSorts[c])
		x.writes[c] = true
	}
	x.epochN++
	st.heap.epoch = fmt.Sprintf("e%d", x.epochN)
	st.heap.pending = nil
	na := x.w.Fresh("alloc", SInt)
	st.assume(App("<=", SBool, st.heap.alloc, na))
	st.heap.alloc = na
	x.notes = append(x.notes, "havoc-all-heap")
}

// assumeFrameFor: after havocking component c inside a loop, locations that the
// unit's modifies clause does not mention keep their pre-loop contents.
func (x *Exec) assumeFrameFor(st *State, c string, old, nv *Term) {
	// the unit's frame condition is a free loop invariant: it is checked at every
	// back edge (enterLoopHead) and at every return, so it may be assumed here.
	if x.unit == nil || x.unit.Con == nil || x.unit.Con.ModifiesAll || x.modLocs == nil || strings.HasPrefix(c, "G!") {
		return
	}
	st.assume(x.frameGoal(c, nv))
}

type effects struct {
	allocs    map[*ssa.Alloc]bool
	comps     map[string]bool
	all       bool
	allocates bool
}

// ---------------------------------------------------------------------------

func exprString(e ast.Expr) string { return types.ExprString(e) }
