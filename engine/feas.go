package main

// Incremental feasibility checks for path pruning: one z3 process per Exec,
// driven through stdin with push/pop. Quantified assumptions are not sent
// (a weaker context only prunes less; pruning is an optimisation, never a
// proof step: a path is dropped only on a definite `unsat`).

import (
	"os"
	"bufio"
	"fmt"
	"io"
	"os/exec"
	"strings"
)

type feasSolver struct {
	cmd      *exec.Cmd
	in       io.WriteCloser
	out      *bufio.Reader
	stack    []string // asserted terms, one per push level
	declared map[string]bool
	nfuns    int
	nrecs    int
	dead     bool
	checks   int
	pruned   int
}

func newFeasSolver() *feasSolver {
	cmd := exec.Command("z3-new", "-in")
	in, err := cmd.StdinPipe()
	if err != nil {
		return &feasSolver{dead: true}
	}
	outp, err := cmd.StdoutPipe()
	if err != nil {
		return &feasSolver{dead: true}
	}
	cmd.Stderr = nil
	if err := cmd.Start(); err != nil {
		return &feasSolver{dead: true}
	}
	f := &feasSolver{cmd: cmd, in: in, out: bufio.NewReader(outp), declared: map[string]bool{}}
	f.send("(set-option :global-declarations true)\n(set-option :timeout 150)\n(declare-sort Str 0)\n")
	return f
}

func (f *feasSolver) send(s string) {
	if f.dead {
		return
	}
	if _, err := io.WriteString(f.in, s); err != nil {
		f.dead = true
	}
}

func (f *feasSolver) close() {
	if f == nil || f.cmd == nil {
		return
	}
	f.in.Close()
	f.cmd.Process.Kill()
	f.cmd.Wait()
}

// sync declarations of the world that the term text needs.
func (f *feasSolver) declare(w *World, text string) {
	for f.nrecs < len(w.recOrder) {
		f.send(w.recOrder[f.nrecs].Decl() + "\n")
		f.nrecs++
	}
	for f.nfuns < len(w.funOrder) {
		n := w.funOrder[f.nfuns]
		if _, ok := w.defFuns[n]; ok {
			f.send(fmt.Sprintf("(define-fun %s %s)\n", n, w.funs[n]))
		} else {
			f.send(fmt.Sprintf("(declare-fun %s %s)\n", n, w.funs[n]))
		}
		f.nfuns++
	}
	used := map[string]bool{}
	symbolsOf(text, used)
	// defs (ordered) and consts
	var need []*Def
	for i := len(w.defOrder) - 1; i >= 0; i-- {
		d := w.defOrder[i]
		if used[d.Name] && !f.declared[d.Name] {
			symbolsOf(d.Body, used)
			need = append(need, d)
		}
	}
	for _, c := range w.constOrder {
		if used[c] && !f.declared[c] {
			f.declared[c] = true
			f.send(fmt.Sprintf("(declare-const %s %s)\n", c, w.consts[c]))
		}
	}
	for i := len(need) - 1; i >= 0; i-- {
		d := need[i]
		f.declared[d.Name] = true
		f.send(fmt.Sprintf("(define-fun %s () %s %s)\n", d.Name, d.Sort, d.Body))
	}
}

// feasible: is the conjunction of the (quantifier-free part of) pc satisfiable?
func (f *feasSolver) feasible(w *World, pc []*Term) bool {
	if f == nil || f.dead {
		return true
	}
	var terms []string
	for _, t := range pc {
		s := t.String()
		if strings.Contains(s, "(forall ") || strings.Contains(s, "(exists ") {
			continue
		}
		terms = append(terms, s)
	}
	// common prefix with the solver stack
	k := 0
	for k < len(f.stack) && k < len(terms) && f.stack[k] == terms[k] {
		k++
	}
	if n := len(f.stack) - k; n > 0 {
		f.send(fmt.Sprintf("(pop %d)\n", n))
		f.stack = f.stack[:k]
	}
	for _, t := range terms[k:] {
		f.declare(w, t)
		f.send("(push 1)\n(assert " + t + ")\n")
		f.stack = append(f.stack, t)
	}
	f.send("(check-sat)\n")
	f.checks++
	if f.dead {
		return true
	}
	line, err := f.out.ReadString('\n')
	if err != nil {
		f.dead = true
		return true
	}
	line = strings.TrimSpace(line)
	if strings.HasPrefix(line, "(error") {
		// desynchronised: give up on pruning
		f.dead = true
		return true
	}
	if line == "unsat" {
		f.pruned++
		if os.Getenv("GOVC_DEBUG_PRUNE") != "" {
			fmt.Fprintf(os.Stderr, "PRUNED with %d terms; last: %s\n", len(terms), terms[len(terms)-1])
			for _, t := range terms {
				fmt.Fprintf(os.Stderr, "   %s\n", t)
			}
		}
		return false
	}
	return true
}
