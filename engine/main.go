package main

import (
	"strconv"
	"encoding/json"
	"flag"
	"fmt"
	"os"
	"path/filepath"
	"regexp"
	"sort"
	"strings"
	"sync"
	"time"
)

func hasTag(tags []string, t string) bool {
	for _, x := range tags {
		if x == t {
			return true
		}
	}
	return false
}

// unitRelevant: a contract is run for property p if the contract or one of its
// clauses carries the tag, or the package's implicit tags include it.
func (e *Engine) unitRelevant(con *Contract, prop string) bool {
	if prop == "" {
		return true
	}
	if hasTag(con.Tags, prop) {
		return true
	}
	var all []*Clause
	all = append(all, con.Requires...)
	all = append(all, con.Ensures...)
	all = append(all, con.AtCalls...)
	all = append(all, con.Forbids...)
	for _, ls := range con.Loops {
		all = append(all, ls.Invariants...)
		all = append(all, ls.Steps...)
		all = append(all, ls.Exits...)
	}
	for _, c := range all {
		if hasTag(c.Tags, prop) {
			return true
		}
	}
	return false
}

func main() {
	repo := flag.String("repo", "/repo", "repository root")
	prop := flag.String("prop", "", "property id (empty: all)")
	tier := flag.String("tier", "quick", "quick|thorough")
	only := flag.String("only", "", "regexp on unit keys")
	work := flag.String("work", "/verif/work", "work directory for SMT files")
	verbose := flag.Bool("v", false, "verbose")
	evidenceDir := flag.String("evidence", "/verif/evidence", "evidence directory")
	verifDir := flag.String("verif", "/verif", "verif root (known findings, ledger)")
	writeLedger := flag.Bool("write-ledger", false, "record discharged obligations in the ledger")
	flag.Parse()
	start := time.Now()
	if t := os.Getenv("VERIF_TIER"); t != "" && (t == "quick" || t == "thorough") {
		*tier = t
	}
	eng := &Engine{repo: *repo, extraImports: map[string][][2]string{}, noPrune: os.Getenv("GOVC_NOPRUNE") != "", prop: *prop, knownOpen: map[string]bool{}}
	for _, k := range loadKnown(*verifDir) {
		if k.Status == "open" {
			eng.knownOpen[k.Obligation] = true
		}
	}
	if err := eng.Load(); err != nil {
		msg := err.Error()
		if lines := strings.Split(msg, "\n"); len(lines) > 12 {
			msg = strings.Join(lines[:12], "\n") + fmt.Sprintf("\n... (%d more lines)", len(lines)-12)
		}
		fmt.Fprintf(os.Stderr, "govc: load failed:\n%v\n", msg)
		os.Exit(2)
	}
	timeout := 10
	if v := os.Getenv("GOVC_TIMEOUT_S"); v != "" {
		// testing aid: a budget too small to answer anything exercises the no-answer paths
		if n, err := strconv.Atoi(v); err == nil && n >= 0 {
			timeout = n
		}
	}
	all := false
	if *tier == "thorough" {
		timeout = 60
		all = true
	}
	var onlyRe *regexp.Regexp
	if *only != "" {
		onlyRe = regexp.MustCompile(*only)
	}
	// one work directory per process: concurrent checks (of the same property too) must not delete
	// each other's query files; directories left behind by processes that no longer run are removed
	if ents, err := os.ReadDir(*work); err == nil {
		for _, en := range ents {
			parts := strings.Split(en.Name(), ".")
			if len(parts) == 3 && parts[0] == "p"+*prop && parts[1] == *tier {
				// an earlier run of this very check: superseded by this one
				if _, err := os.Stat("/proc/" + parts[2]); err != nil {
					os.RemoveAll(filepath.Join(*work, en.Name()))
				}
			} else if strings.HasPrefix(en.Name(), "p") && !strings.Contains(en.Name(), ".") {
				os.RemoveAll(filepath.Join(*work, en.Name())) // layout of earlier versions
			}
		}
	}
	wd := filepath.Join(*work, fmt.Sprintf("p%s.%s.%d", *prop, *tier, os.Getpid()))
	os.RemoveAll(wd)
	os.MkdirAll(wd, 0o755)

	var cons []*Contract
	var paths []string
	for p := range eng.specs {
		paths = append(paths, p)
	}
	sort.Strings(paths)
	for _, p := range paths {
		pkgRelevant := false
		for _, con := range eng.specs[p].Contracts {
			if !con.Canary && eng.unitRelevant(con, *prop) {
				pkgRelevant = true
			}
		}
		for _, con := range eng.specs[p].Contracts {
			if con.Kind == "type" {
				continue
			}
			if con.Canary && !pkgRelevant {
				continue
			}
			if !eng.unitRelevant(con, *prop) && !con.Canary {
				continue
			}
			if onlyRe != nil && !onlyRe.MatchString(con.Key) {
				continue
			}
			cons = append(cons, con)
		}
	}
	results := make([]*UnitResult, len(cons))
	var extraResults []*UnitResult
	var emu sync.Mutex
	var wg sync.WaitGroup
	sem := make(chan struct{}, 8)
	for i, con := range cons {
		wg.Add(1)
		go func(i int, con *Contract) {
			defer wg.Done()
			sem <- struct{}{}
			defer func() { <-sem }()
			if con.Kind == "refine" {
				rs := eng.VerifyRefine(con, wd, timeout, all)
				emu.Lock()
				extraResults = append(extraResults, rs...)
				emu.Unlock()
				results[i] = &UnitResult{Key: shortPkg(con.Pkg) + ".refine " + con.Key, Tags: con.Tags, Trusted: false}
			} else if con.Kind == "lemma" {
				results[i] = eng.VerifyLemma(con, wd, timeout, all)
			} else {
				results[i] = eng.VerifyFunc(con, wd, timeout, all)
			}
		}(i, con)
	}
	wg.Wait()
	results = append(results, extraResults...)
	partialRun = *only != ""
	rep := buildReport(eng, *prop, *tier, results, *verifDir, start)
	rep.print(*verbose)
	if *prop != "" && !partialRun {
		// a run restricted with -only is a development aid: it must not replace the record of a full run
		rep.writeEvidence(filepath.Join(*evidenceDir, *prop+".json"))
	}
	if *writeLedger && !partialRun {
		rep.writeLedger(filepath.Join(*verifDir, "ledger.json"))
	}
	if rep.exitCode == 0 {
		os.RemoveAll(wd) // nothing refers to the query files
	}
	os.Exit(rep.exitCode)
}

// ---------------------------------------------------------------------------

var partialRun bool

type NamedObl struct {
	Name      string   `json:"name"`
	Kind      string   `json:"kind"`
	Instances int      `json:"path_instances"`
	Status    string   `json:"status"`
	Solvers   []string `json:"solvers"`
	TimeS     float64  `json:"solver_time_s"`
	Pos       string   `json:"pos,omitempty"`
	failing   *Obligation
}

type Report struct {
	prop, tier   string
	units        []*UnitResult
	named        []*NamedObl
	violations   []string
	known        []string
	undecided    []string
	broken       []string
	exitCode     int
	start        time.Time
	verifDir     string
	eng          *Engine
	assumptions  []string
	trusted      []string
	replays      map[string]string
	vacChecks    int
	canaryOK     int
	canaryTotal  int
}

type KnownFinding struct {
	Property   string `json:"property"`
	Obligation string `json:"obligation"`
	What       string `json:"what"`
	Witness    string `json:"witness,omitempty"`
	Status     string `json:"status"` // open | fixed
	Commit     string `json:"commit,omitempty"`
}

func loadKnown(dir string) []KnownFinding {
	var kf struct {
		Findings []KnownFinding `json:"findings"`
	}
	data, err := os.ReadFile(filepath.Join(dir, "known_findings.json"))
	if err != nil {
		return nil
	}
	json.Unmarshal(data, &kf)
	return kf.Findings
}

type Ledger map[string][]string // property -> obligation names discharged on the pinned tree

func loadLedger(dir string) Ledger {
	l := Ledger{}
	data, err := os.ReadFile(filepath.Join(dir, "ledger.json"))
	if err != nil {
		return l
	}
	json.Unmarshal(data, &l)
	return l
}

func buildReport(eng *Engine, prop, tier string, units []*UnitResult, verifDir string, start time.Time) *Report {
	r := &Report{prop: prop, tier: tier, units: units, start: start, verifDir: verifDir, eng: eng, replays: map[string]string{}}
	known := loadKnown(verifDir)
	ledger := loadLedger(verifDir)
	inLedger := map[string]bool{}
	for _, n := range ledger[prop] {
		inLedger[n] = true
	}
	byName := map[string]*NamedObl{}
	seen := map[string]bool{}
	for _, u := range units {
		if u.Trusted {
			r.trusted = append(r.trusted, u.Key)
			continue
		}
		for _, pre := range u.Unbound {
			was := false
			for _, names := range ledger {
				for _, n := range names {
					if strings.HasPrefix(n, pre) {
						was = true
					}
				}
			}
			if !was {
				r.broken = append(r.broken, fmt.Sprintf("%s: an atcall clause (%s...]) matches no call site and never did: the contract is wrong", u.Key, pre))
			}
		}
		if u.Unsupported != "" {
			r.broken = append(r.broken, fmt.Sprintf("%s: outside the supported subset: %s", u.Key, u.Unsupported))
			continue
		}
		if u.Canary {
			r.canaryTotal++
			ok := false
			for _, o := range u.Obls {
				if o.Kind == "ensures" && o.Status == "sat" {
					ok = true
				}
			}
			if ok {
				r.canaryOK++
			} else {
				r.broken = append(r.broken, "canary "+u.Key+" did not fail: the engine would accept anything")
			}
			continue
		}
		if u.Vacuity != "" {
			r.broken = append(r.broken, u.Vacuity)
		}
		for _, n := range u.Notes {
			r.assumptions = append(r.assumptions, u.Key+": "+n)
		}
		if u.VacuityUnknown {
			r.assumptions = append(r.assumptions, u.Key+": satisfiability of the precondition not confirmed by a solver (unknown)")
		}
		for _, o := range u.Obls {
			if prop != "" && !hasTag(o.Tags, prop) {
				continue
			}
			if o.Kind == "vacuity" {
				r.vacChecks++
				continue
			}
			if o.Status == "skipped" {
				continue
			}
			no := byName[o.Name]
			if no == nil {
				no = &NamedObl{Name: o.Name, Kind: o.Kind, Status: "unsat", Pos: o.Pos}
				byName[o.Name] = no
				r.named = append(r.named, no)
			}
			no.Instances++
			no.TimeS += o.TimeS
			if o.Solver != "" && !contains(no.Solvers, o.Solver) {
				no.Solvers = append(no.Solvers, o.Solver)
			}
			if o.Status != "unsat" {
				if no.Status == "unsat" || (no.Status == "unknown" && o.Status == "sat") {
					no.Status = o.Status
					no.failing = o
				}
			}
			if o.Solver == "DISAGREE" {
				r.broken = append(r.broken, "solvers disagree on "+o.Name)
			}
		}
	}
	sort.Slice(r.named, func(i, j int) bool { return r.named[i].Name < r.named[j].Name })
	for _, no := range r.named {
		seen[no.Name] = true
		if no.Status == "unsat" {
			continue
		}
		// known finding?
		matched := false
		for _, k := range known {
			if k.Status == "open" && k.Obligation == no.Name && (k.Property == prop || prop == "") {
				r.known = append(r.known, fmt.Sprintf("KNOWN-FINDING: property=%s %s %s", k.Property, no.Name, k.What))
				no.Status = "known-finding"
				matched = true
				break
			}
		}
		if matched {
			continue
		}
		rtext, confirmed := r.tryReplay(no)
		replay := r.writeReplay(no, rtext)
		suffix := ""
		if !confirmed {
			suffix = " no-failing-input-found"
		}
		if no.Status == "unknown" && inLedger[no.Name] && r.unchangedSince(no.Name) {
			// same code, same contracts, hence the same verification condition as on the pinned tree, where it was
			// discharged: a solver that gives no answer now (even with six times the budget) is short of time, not refuted
			r.undecided = append(r.undecided, fmt.Sprintf("UNDECIDED property=%s %s (no solver answer within the budget; the unit's package and all contract files are byte-identical to the pinned tree, where this obligation is discharged: machine load, not a violation)", prop, no.Name))
			continue
		}
		if no.Status == "unknown" && !inLedger[no.Name] && len(ledger[prop]) > 0 {
			r.undecided = append(r.undecided, fmt.Sprintf("UNDECIDED property=%s %s (no solver answer; obligation was never discharged on the pinned tree)", prop, no.Name))
			continue
		}
		r.violations = append(r.violations, fmt.Sprintf("VIOLATION property=%s replay=%s obligation=%s%s", prop, replay, no.Name, suffix))
	}
	// ledger: obligations that disappeared
	if prop != "" && !partialRun {
		for _, n := range ledger[prop] {
			if !seen[n] {
				r.undecided = append(r.undecided, fmt.Sprintf("UNDECIDED property=%s %s (obligation no longer generated: contract target or keyed site changed)", prop, n))
			}
		}
	}
	switch {
	case len(r.violations) > 0:
		r.exitCode = 1
	case len(r.broken) > 0:
		r.exitCode = 2
	}
	return r
}

// unchangedSince: the package directory of the obligation's source position and every contract file have the
// hashes recorded in baseline_hashes.json (written together with the ledger on the pinned tree).
func (r *Report) unchangedSince(oblName string) bool {
	if r.eng == nil {
		return false
	}
	// the unit's package: the longest package key that prefixes the obligation's name
	pos, best := "", ""
	for pkgPath := range r.eng.specs {
		sp := shortPkg(pkgPath)
		if strings.HasPrefix(oblName, sp+".") && len(sp) > len(best) {
			best = sp
			pos = strings.TrimPrefix(strings.TrimPrefix(pkgPath, repoModule), "/") + "/x.go"
		}
	}
	if pos == "" {
		return false
	}
	data, err := os.ReadFile(filepath.Join(r.verifDir, "baseline_hashes.json"))
	if err != nil {
		return false
	}
	base := map[string]string{}
	if json.Unmarshal(data, &base) != nil || len(base) == 0 {
		return false
	}
	file := pos
	if i := strings.Index(file, ":"); i >= 0 {
		file = file[:i]
	}
	if filepath.IsAbs(file) {
		if rel, err := filepath.Rel(r.eng.repo, file); err == nil {
			file = rel
		}
	}
	dir := filepath.Dir(file)
	relevant := func(p string) bool {
		return filepath.Dir(p) == dir || filepath.Base(p) == "zz_contracts_verif.go"
	}
	n := 0
	for p, h := range r.eng.fileHashes {
		if relevant(p) {
			n++
			if base[p] != h {
				return false
			}
		}
	}
	for p := range base {
		if relevant(p) {
			if _, ok := r.eng.fileHashes[p]; !ok {
				return false
			}
		}
	}
	return n > 0
}

func (r *Report) writeReplay(no *NamedObl, rtext string) string {
	dir := filepath.Join(r.verifDir, "replays")
	os.MkdirAll(dir, 0o755)
	path := filepath.Join(dir, smtName(no.Name)+".txt")
	var sb strings.Builder
	fmt.Fprintf(&sb, "failed obligation: %s\nkind: %s\nsource: %s\nstatus: %s\n", no.Name, no.Kind, no.Pos, no.Status)
	if o := no.failing; o != nil {
		fmt.Fprintf(&sb, "smt query: %s\nsolver: %s\n", o.Script, o.Solver)
		if rtext != "" {
			sb.WriteString(rtext)
		}
		fmt.Fprintf(&sb, "--- solver output ---\n%s\n", truncate(o.Model, 6000))
	}
	os.WriteFile(path, []byte(sb.String()), 0o644)
	return path
}

func truncate(s string, n int) string {
	if len(s) > n {
		return s[:n] + "\n...[truncated]"
	}
	return s
}

func (r *Report) print(verbose bool) {
	disc := 0
	for _, no := range r.named {
		if no.Status == "unsat" {
			disc++
		}
		if verbose || no.Status != "unsat" {
			fmt.Printf("  %-14s %s  (%d path instances, %.2fs, %s)\n", no.Status, no.Name, no.Instances, no.TimeS, strings.Join(no.Solvers, ","))
		}
	}
	for _, u := range r.units {
		if verbose {
			fmt.Printf("unit %s: %d obligations, %d paths (%d branches pruned), %.1fs %s\n", u.Key, len(u.Obls), u.Paths, u.Pruned, u.Seconds, u.Unsupported)
			for _, n := range u.Notes {
				fmt.Printf("     note: %s\n", n)
			}
			if u.Canary && os.Getenv("GOVC_DEBUG_CANARY") != "" {
				for _, o := range u.Obls {
					fmt.Printf("     canary obligation %s: %s (%s)\n", o.Name, o.Status, o.Solver)
				}
			}
		}
	}
	fmt.Printf("property %s tier %s: %d named obligations, %d discharged, %d units, canaries %d/%d, %.1fs\n",
		r.prop, r.tier, len(r.named), disc, len(r.units), r.canaryOK, r.canaryTotal, time.Since(r.start).Seconds())
	for _, s := range r.known {
		fmt.Println(s)
	}
	for _, s := range r.undecided {
		fmt.Println(s)
	}
	for _, s := range r.broken {
		fmt.Println("BROKEN: " + s)
	}
	for _, s := range r.violations {
		fmt.Println(s)
	}
}

func (r *Report) writeLedger(path string) {
	l := Ledger{}
	if data, err := os.ReadFile(path); err == nil {
		json.Unmarshal(data, &l)
	}
	var names []string
	for _, no := range r.named {
		if no.Status == "unsat" {
			names = append(names, no.Name)
		}
	}
	l[r.prop] = names
	data, _ := json.MarshalIndent(l, "", " ")
	os.WriteFile(path, data, 0o644)
}

func (r *Report) writeEvidence(path string) {
	os.MkdirAll(filepath.Dir(path), 0o755)
	disc, total, knownN := 0, 0, 0
	var samples []any
	backends := map[string]int{}
	var solverTime float64
	instances := 0
	for _, no := range r.named {
		if no.Status == "known-finding" {
			knownN++
			continue
		}
		total++
		if no.Status == "unsat" {
			disc++
		}
		for _, s := range no.Solvers {
			backends[s]++
		}
		solverTime += no.TimeS
		instances += no.Instances
		if len(samples) < 12 {
			samples = append(samples, map[string]any{"obligation": no.Name, "kind": no.Kind, "status": no.Status, "path_instances": no.Instances, "source": no.Pos, "back_ends": no.Solvers})
		}
	}
	var fns []string
	bounded := []string{}
	for _, u := range r.units {
		if u.Canary {
			continue
		}
		fns = append(fns, u.Key)
		if u.Bounded != "" {
			bounded = append(bounded, u.Key+": "+u.Bounded)
		}
	}
	sort.Strings(fns)
	assum := append([]string{}, baseAssumptions...)
	for k, v := range externalAssumptions {
		assum = append(assum, "assumed contract of external "+k+": "+v)
	}
	sort.Strings(assum[len(baseAssumptions):])
	for _, t := range r.trusted {
		assum = append(assum, "trusted (assumed, unverified) contract: "+t)
	}
	assum = append(assum, dedupe(r.assumptions)...)
	var allObl []any
	for _, no := range r.named {
		allObl = append(allObl, map[string]any{"name": no.Name, "status": no.Status, "n": no.Instances, "t": fmt.Sprintf("%.2f", no.TimeS), "by": strings.Join(no.Solvers, ",")})
	}
	ev := map[string]any{
		"property_id": r.prop,
		"tier":        r.tier,
		"seed":        0,
		"level":       "proof",
		"wall_s":      time.Since(r.start).Seconds(),
		"violations":  len(r.violations),
		"assumptions": assum,
		"coverage": map[string]any{
			"obligations":                 total,
			"discharged":                  disc,
			"known_finding_obligations":   knownN,
			"path_instances":              instances,
			"checker_cmd":                 "govc (go/ssa weakest-precondition style symbolic execution) -> SMT-LIB2 -> z3 4.8.12 | z3 5.1.0 | cvc5 1.0 raced per obligation",
			"trusted_base":                []string{"govc VC generator (this repository, /verif/engine)", "golang.org/x/tools/go/ssa v0.29.0", "go/types", "z3 4.8.12", "z3 5.1.0", "cvc5 1.0", "Go compiler implements the spec"},
			"functions_under_contract":    fns,
			"bounded_stand_ins":           bounded,
			"back_ends":                   backends,
			"solver_time_s":               solverTime,
			"samples":                     samples,
			"all_obligations":             allObl,
			"canaries_failed_as_required": fmt.Sprintf("%d/%d", r.canaryOK, r.canaryTotal),
			"vacuity_checks":              r.vacChecks,
			"known_findings":              r.known,
			"undecided":                   r.undecided,
			"explanation":                 "each named obligation aggregates its instances over all symbolic paths of the function; discharged means every instance returned unsat from at least one solver",
		},
	}
	data, _ := json.MarshalIndent(ev, "", " ")
	os.WriteFile(path, data, 0o644)
}

var baseAssumptions = []string{
	"the VC generator itself (SSA -> SMT translation, heap model, contract lowering) is unverified; guarded by canaries and the must-fail corpus",
	"machine integers: in 'int' mode Go ints are mathematical integers (no overflow modelled); in 'bv' mode they are exact 64-bit vectors",
	"floats: IEEE-754 binary64 with a single NaN",
	"memory safety of Go: references read from the heap point to allocated objects; slices satisfy 0 <= len <= cap",
	"termination is proved only where a decreases clause is given",
}
