package main

import (
	"bytes"
	"context"
	"fmt"
	"os"
	"os/exec"
	"path/filepath"
	"strings"
	"sync"
	"time"
)

type solverDef struct {
	name string
	argv func(file string, timeoutS int) []string
}

var solvers = []solverDef{
	{"z3-new", func(f string, t int) []string { return []string{"z3-new", fmt.Sprintf("-T:%d", t), f} }},
	{"z3", func(f string, t int) []string { return []string{"z3", fmt.Sprintf("-T:%d", t), f} }},
	{"cvc5", func(f string, t int) []string {
		return []string{"cvc5", "--produce-models", fmt.Sprintf("--tlimit=%d", t*1000), f}
	}},
}

var procSem = make(chan struct{}, 16)

type solveResult struct {
	status string // unsat | sat | unknown
	solver string
	out    string
	secs   float64
	all    map[string]string
}

func runSolver(ctx context.Context, sd solverDef, file string, timeoutS int) (string, string) {
	procSem <- struct{}{}
	defer func() { <-procSem }()
	if ctx.Err() != nil {
		return "unknown", ""
	}
	argv := sd.argv(file, timeoutS)
	cctx, cancel := context.WithTimeout(ctx, time.Duration(timeoutS+2)*time.Second)
	defer cancel()
	cmd := exec.CommandContext(cctx, argv[0], argv[1:]...)
	var out bytes.Buffer
	cmd.Stdout = &out
	cmd.Stderr = &out
	cmd.Run()
	txt := out.String()
	first := strings.TrimSpace(strings.SplitN(txt, "\n", 2)[0])
	switch first {
	case "unsat":
		return "unsat", txt
	case "sat":
		return "sat", txt
	}
	return "unknown", txt
}

// solve races the solvers on one script. mode "race": first definite answer
// wins. mode "all": wait for every solver (thorough tier, agreement check).
func solve(script, file string, timeoutS int, all bool, only []string) solveResult {
	os.MkdirAll(filepath.Dir(file), 0o755)
	os.WriteFile(file, []byte(script), 0o644)
	if !all && len(only) == 0 {
		// staged race (quick tier): the two solvers that decide almost everything first, the third
		// only if neither answers
		r := solveWith(file, timeoutS, false, []string{"z3-new", "cvc5"})
		if r.status != "unknown" {
			return r
		}
		r2 := solveWith(file, timeoutS, false, []string{"z3"})
		if r2.status != "unknown" {
			r2.secs += r.secs
			return r2
		}
		return r
	}
	return solveWith(file, timeoutS, all, only)
}

func solveWith(file string, timeoutS int, all bool, only []string) solveResult {
	start := time.Now()
	ctx, cancel := context.WithCancel(context.Background())
	defer cancel()
	type ans struct{ name, status, out string }
	ch := make(chan ans, len(solvers))
	n := 0
	for _, sd := range solvers {
		if len(only) > 0 && !contains(only, sd.name) {
			continue
		}
		n++
		sd := sd
		go func() {
			s, o := runSolver(ctx, sd, file, timeoutS)
			ch <- ans{sd.name, s, o}
		}()
	}
	res := solveResult{status: "unknown", all: map[string]string{}}
	for i := 0; i < n; i++ {
		a := <-ch
		res.all[a.name] = a.status
		if a.status != "unknown" && res.status == "unknown" {
			res.status, res.solver, res.out = a.status, a.name, a.out
			res.secs = time.Since(start).Seconds()
			if !all {
				cancel()
				// drain in background
				go func(k int) {
					for j := 0; j < k; j++ {
						<-ch
					}
				}(n - i - 1)
				return res
			}
		} else if a.status == "unknown" && res.out == "" {
			res.out = a.out
		}
	}
	if res.secs == 0 {
		res.secs = time.Since(start).Seconds()
	}
	return res
}

func contains(xs []string, s string) bool {
	for _, x := range xs {
		if x == s {
			return true
		}
	}
	return false
}

// discharge runs all obligations of a unit in parallel.
func discharge(w *World, obls []*Obligation, dir string, timeoutS int, all bool) {
	var wg sync.WaitGroup
	// dedupe identical scripts
	cache := map[string]*Obligation{}
	var mu sync.Mutex
	for i, o := range obls {
		if o.Status != "" {
			continue
		}
		script := w.Script(o.Assume, o.Goal, true)
		mu.Lock()
		if prev, ok := cache[script]; ok {
			mu.Unlock()
			wg.Add(1)
			go func(o, prev *Obligation) {
				defer wg.Done()
				// wait until prev finishes
				for prev.Status == "" {
					time.Sleep(5 * time.Millisecond)
				}
				o.Status, o.Solver, o.TimeS, o.Model, o.Script = prev.Status, prev.Solver, 0, prev.Model, prev.Script
			}(o, prev)
			continue
		}
		cache[script] = o
		mu.Unlock()
		file := filepath.Join(dir, fmt.Sprintf("%s_%04d.smt2", smtName(o.Unit), i))
		o.Script = file
		wg.Add(1)
		go func(o *Obligation, script, file string) {
			defer wg.Done()
			r := solve(script, file, timeoutS, all, nil)
			o.Solver, o.TimeS = r.solver, r.secs
			if r.status == "sat" {
				o.Model = r.out
			} else if r.status == "unknown" {
				o.Model = r.out
			}
			if all {
				// disagreement check
				sawSat, sawUnsat := false, false
				for _, s := range r.all {
					if s == "sat" {
						sawSat = true
					}
					if s == "unsat" {
						sawUnsat = true
					}
				}
				if sawSat && sawUnsat {
					o.Solver = "DISAGREE"
				}
			}
			o.Status = r.status
		}(o, script, file)
	}
	wg.Wait()
}
