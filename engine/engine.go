package main

import (
	"regexp"
	"strconv"
	"crypto/sha256"
	"encoding/hex"
	"fmt"
	"go/ast"
	"go/token"
	"go/types"
	"math/big"
	"os"
	"path/filepath"
	"sort"
	"strings"
	"sync"

	"golang.org/x/tools/go/ast/astutil"
	"golang.org/x/tools/go/packages"
	"golang.org/x/tools/go/ssa"
	"golang.org/x/tools/go/ssa/ssautil"
)

const repoModule = "github.com/paulsonkoly/calc"

type Unit struct {
	Key       string
	Con       *Contract
	Fn        *ssa.Function
	Spec      *PkgSpec
	WriteHook func(x *Exec, fr *Frame, st *State, kind string, arr *Term, et types.Type, site ssa.Instruction)
}

type Engine struct {
	knownOpen map[string]bool // obligation names listed as open findings: one short attempt each
	repo   string
	fset   *token.FileSet
	pkgs   []*packages.Package
	prog   *ssa.Program
	spkgs  map[string]*ssa.Package
	specs  map[string]*PkgSpec // by package path
	fnKeys map[*ssa.Function]string
	byKey  map[string]map[string]*ssa.Function // pkgpath -> key -> fn

	contracts     map[*ssa.Function]*Contract
	views         map[string]map[string]*Contract // caller package path -> full fn key -> contract
	phase1Idx     map[string]map[string]*ssa.Function
	typeContracts map[string]*Contract // "pkgpath.Type" or "pkgpath.Type.Method"
	overlayDecls  map[*types.Func]*ast.FuncDecl
	unbound       []string
	ghostPreds    map[*types.Func]*Pred
	funPreds      map[*types.Func]*Pred
	clauseInfo    map[*Clause]*types.Info
	loopCache     sync.Map
	implCache     sync.Map
	extraImports  map[string][][2]string
	files         map[string]*ast.File // by filename
	fileHashes    map[string]string
	mu            sync.Mutex
	loadErrs      []string
	noPrune       bool
	prop          string
}

func goEnv() []string {
	env := os.Environ()
	env = append(env, "GOFLAGS=-mod=mod", "GOPROXY=off", "GOSUMDB=off", "GOTOOLCHAIN=local")
	return env
}

func (e *Engine) load(overlay map[string][]byte) ([]*packages.Package, *ssa.Program, map[string]*ssa.Package, error) {
	fset := token.NewFileSet()
	cfg := &packages.Config{Mode: packages.LoadAllSyntax, Dir: e.repo, BuildFlags: []string{"-tags=verif"}, Env: goEnv(), Fset: fset, Overlay: overlay}
	pkgs, err := packages.Load(cfg, "./...")
	if err != nil {
		return nil, nil, nil, err
	}
	var errs []string
	for _, p := range pkgs {
		for _, er := range p.Errors {
			errs = append(errs, er.Error())
		}
	}
	if len(errs) > 0 {
		return nil, nil, nil, fmt.Errorf("load errors:\n%s", strings.Join(errs, "\n"))
	}
	prog, spkgs := ssautil.AllPackages(pkgs, ssa.NaiveForm|ssa.InstantiateGenerics|ssa.GlobalDebug)
	prog.Build()
	m := map[string]*ssa.Package{}
	for _, sp := range spkgs {
		if sp != nil {
			m[sp.Pkg.Path()] = sp
		}
	}
	e.fset = fset
	return pkgs, prog, m, nil
}

// fnKey computes the contract key of a function.
func fnKeyOf(fn *ssa.Function) string {
	if fn.Parent() != nil {
		// anonymous: parentKey$N
		name := fn.Name() // e.g. Choose$1
		pk := fnKeyOf(fn.Parent())
		if i := strings.LastIndex(name, "$"); i >= 0 {
			return pk + name[i:]
		}
		return pk + "$" + name
	}
	if recv := fn.Signature.Recv(); recv != nil {
		t := recv.Type()
		star := ""
		if p, ok := t.(*types.Pointer); ok {
			star = "*"
			t = p.Elem()
		}
		name := t.String()
		if n, ok := t.(*types.Named); ok {
			name = n.Obj().Name()
		}
		return "(" + star + name + ")." + fn.Name()
	}
	return fn.Name()
}

func (e *Engine) fnKey(fn *ssa.Function) string {
	pk := ""
	if fn.Pkg != nil {
		pk = fn.Pkg.Pkg.Path()
	} else if fn.Parent() != nil && fn.Parent().Pkg != nil {
		pk = fn.Parent().Pkg.Pkg.Path()
	} else if o := fn.Origin(); o != nil && o.Pkg != nil {
		pk = o.Pkg.Pkg.Path()
	}
	return pk + "." + fnKeyOf(fn)
}

func (e *Engine) inRepo(fn *ssa.Function) bool {
	return strings.HasPrefix(e.fnKey(fn), repoModule)
}

func (e *Engine) indexFunctions(prog *ssa.Program) map[string]map[string]*ssa.Function {
	out := map[string]map[string]*ssa.Function{}
	for fn := range ssautil.AllFunctions(prog) {
		full := e.fnKey(fn)
		if !strings.HasPrefix(full, repoModule) {
			continue
		}
		var pk string
		switch {
		case fn.Pkg != nil:
			pk = fn.Pkg.Pkg.Path()
		case fn.Parent() != nil && fn.Parent().Pkg != nil:
			pk = fn.Parent().Pkg.Pkg.Path()
		case fn.Origin() != nil && fn.Origin().Pkg != nil:
			pk = fn.Origin().Pkg.Pkg.Path()
		default:
			continue
		}
		if fn.Synthetic != "" && !strings.Contains(fn.Synthetic, "instance of") {
			continue
		}
		if out[pk] == nil {
			out[pk] = map[string]*ssa.Function{}
		}
		out[pk][fnKeyOf(fn)] = fn
	}
	return out
}

// Load performs the two-phase load: (1) plain, to learn signatures; (2) with
// the generated overlay holding the clause functions.
func (e *Engine) Load() error {
	// find contract files
	e.specs = map[string]*PkgSpec{}
	e.fileHashes = map[string]string{}
	var files []string
	filepath.Walk(e.repo, func(p string, info os.FileInfo, err error) error {
		if err == nil && !info.IsDir() && info.Name() == "zz_contracts_verif.go" {
			files = append(files, p)
		}
		if err == nil && !info.IsDir() && strings.HasSuffix(p, ".go") {
			if data, err := os.ReadFile(p); err == nil {
				h := sha256.Sum256(data)
				rel, _ := filepath.Rel(e.repo, p)
				e.fileHashes[rel] = hex.EncodeToString(h[:8])
			}
		}
		return nil
	})
	sort.Strings(files)
	pkgs, prog, _, err := e.load(nil)
	if err != nil {
		return err
	}
	byDir := map[string]*packages.Package{}
	for _, p := range pkgs {
		if len(p.GoFiles) > 0 {
			byDir[filepath.Dir(p.GoFiles[0])] = p
		}
	}
	fnIdx := e.indexFunctions(prog)
	e.phase1Idx = fnIdx
	e.files = map[string]*ast.File{}
	for _, p := range pkgs {
		for i, f := range p.Syntax {
			if i < len(p.CompiledGoFiles) {
				e.files[p.CompiledGoFiles[i]] = f
			}
		}
	}
	overlay := map[string][]byte{}
	for _, f := range files {
		p := byDir[filepath.Dir(f)]
		if p == nil {
			return fmt.Errorf("no package for contract file %s", f)
		}
		ps, err := ParseContractFile(f, p.PkgPath)
		if err != nil {
			return err
		}
		e.specs[p.PkgPath] = ps
	}
	for _, f := range files {
		p := byDir[filepath.Dir(f)]
		ps := e.specs[p.PkgPath]
		src, err := e.GenerateOverlay(ps, p.Types, fnIdx[p.PkgPath])
		if err != nil {
			return err
		}
		overlay[filepath.Join(filepath.Dir(f), "zz_contracts_gen_verif.go")] = []byte(src)
		if os.Getenv("GOVC_DUMP_OVERLAY") != "" {
			os.WriteFile(filepath.Join(os.Getenv("GOVC_DUMP_OVERLAY"), p.Name+"_overlay.go"), []byte(src), 0o644)
		}
	}
	pkgs, prog, spkgs, err := e.load(overlay)
	for round := 0; err != nil && round < 3; round++ {
		// a clause that no longer type-checks (the code was edited: a local or parameter it names is gone) does not
		// break the check: the clause is marked unbound, its unit is not verified (its obligations are then reported as
		// "no longer generated", exit 0), everything else goes on
		n := 0
		for _, f := range files {
			p := byDir[filepath.Dir(f)]
			ps := e.specs[p.PkgPath]
			gen := filepath.Join(filepath.Dir(f), "zz_contracts_gen_verif.go")
			lines := strings.Split(string(overlay[gen]), "\n")
			changed := false
			for _, m := range regexp.MustCompile(regexp.QuoteMeta(gen)+`:(\d+):`).FindAllStringSubmatch(err.Error(), -1) {
				ln, _ := strconv.Atoi(m[1])
				if ln < 1 || ln > len(lines) {
					continue
				}
				fm := regexp.MustCompile(`^func (__c\d+)\(`).FindStringSubmatch(lines[ln-1])
				if fm == nil {
					continue
				}
				if c := ps.byGoName[fm[1]]; c != nil && !c.Unbound {
					c.Unbound = true
					if con := ps.conOf[c]; con != nil {
						con.Unbound = true
						e.unbound = append(e.unbound, fmt.Sprintf("%s: clause [%s] of %s no longer type-checks against the code", shortPkg(p.PkgPath), c.Label, con.Key))
					}
					changed, n = true, n+1
				}
			}
			if changed {
				src, gerr := e.GenerateOverlay(ps, p.Types, fnIdx[p.PkgPath])
				if gerr != nil {
					return gerr
				}
				overlay[gen] = []byte(src)
			}
		}
		if n == 0 {
			break
		}
		pkgs, prog, spkgs, err = e.load(overlay)
	}
	if err != nil {
		return err
	}
	e.pkgs, e.prog, e.spkgs = pkgs, prog, spkgs
	e.byKey = e.indexFunctions(prog)
	e.contracts = map[*ssa.Function]*Contract{}
	e.views = map[string]map[string]*Contract{}
	e.phase1Idx = e.byKey
	e.typeContracts = map[string]*Contract{}
	e.overlayDecls = map[*types.Func]*ast.FuncDecl{}
	e.ghostPreds = map[*types.Func]*Pred{}
	e.funPreds = map[*types.Func]*Pred{}
	e.clauseInfo = map[*Clause]*types.Info{}
	e.files = map[string]*ast.File{}
	for _, p := range pkgs {
		for i, f := range p.Syntax {
			if i < len(p.CompiledGoFiles) {
				e.files[p.CompiledGoFiles[i]] = f
			}
		}
		ps := e.specs[p.PkgPath]
		if ps == nil {
			continue
		}
		// locate the overlay file
		var ov *ast.File
		for i, f := range p.Syntax {
			if i < len(p.CompiledGoFiles) && strings.HasSuffix(p.CompiledGoFiles[i], "zz_contracts_gen_verif.go") {
				ov = f
			}
		}
		if ov == nil {
			return fmt.Errorf("overlay file of %s not loaded", p.PkgPath)
		}
		decls := map[string]*ast.FuncDecl{}
		for _, d := range ov.Decls {
			if fd, ok := d.(*ast.FuncDecl); ok {
				decls[fd.Name.Name] = fd
				if obj, ok := p.TypesInfo.Defs[fd.Name].(*types.Func); ok {
					e.overlayDecls[obj] = fd
				}
			}
		}
		for _, pr := range ps.Preds {
			pr.Decl = decls[pr.Name]
			if pr.Ghost {
				if obj, ok := p.TypesInfo.Defs[pr.Decl.Name].(*types.Func); ok {
					e.ghostPreds[obj] = pr
				}
			}
			if pr.Fun && pr.Decl != nil {
				if obj, ok := p.TypesInfo.Defs[pr.Decl.Name].(*types.Func); ok {
					e.funPreds[obj] = pr
				}
			}
		}
		bind := func(c *Clause) error {
			fd := decls[c.GoName]
			if fd == nil {
				return fmt.Errorf("clause function %s missing", c.GoName)
			}
			ret, ok := fd.Body.List[0].(*ast.ReturnStmt)
			if !ok {
				// unbound clause (body is a panic): no expression
				c.Func = fd
				e.clauseInfo[c] = p.TypesInfo
				return nil
			}
			c.Expr = ret.Results[0]
			c.Func = fd
			e.clauseInfo[c] = p.TypesInfo
			return nil
		}
		for _, c := range append(append([]*Clause{}, ps.GlobalInv...), ps.Axioms...) {
			if err := bind(c); err != nil {
				return err
			}
		}
		for _, con := range ps.Contracts {
			var all []*Clause
			all = append(all, con.Requires...)
			all = append(all, con.Callers...)
			all = append(all, con.Ensures...)
			all = append(all, con.Modifies...)
			all = append(all, con.Cuts...)
			all = append(all, con.Running...)
			all = append(all, con.AtCalls...)
			if con.Coupling != nil {
				all = append(all, con.Coupling)
			}
			for _, m := range con.Models {
				all = append(all, m)
			}
			for _, ls := range con.Loops {
				all = append(all, ls.Invariants...)
				all = append(all, ls.Steps...)
				all = append(all, ls.Exits...)
				if ls.Decreases != nil {
					all = append(all, ls.Decreases)
				}
			}
			for _, c := range all {
				if err := bind(c); err != nil {
					return err
				}
			}
			switch con.Kind {
			case "func":
				fn := e.byKey[p.PkgPath][con.Key]
				if fn == nil {
					if vf := e.viewTarget(p.Types, con.Key); vf != nil {
						if e.views[p.PkgPath] == nil {
							e.views[p.PkgPath] = map[string]*Contract{}
						}
						e.views[p.PkgPath][e.fnKey(vf)] = con
						con.View = true
						con.ModComps = e.staticModComps(con)
						continue
					}
					return fmt.Errorf("%s:%d: contract target %s not found after overlay load", ps.File, con.Line, con.Key)
				}
				if !con.Canary {
					e.contracts[fn] = con
				}
			case "type":
				e.typeContracts[p.PkgPath+"."+con.Key] = con
			}
			con.ModComps = e.staticModComps(con)
		}
	}
	return nil
}

func (e *Engine) infoFor(c *Clause) *types.Info { return e.clauseInfo[c] }

func (e *Engine) contractFor(fn *ssa.Function) *Contract {
	if c := e.contracts[fn]; c != nil {
		return c
	}
	return nil
}

// contractSeenFrom: a package may declare its own (trusted) view of another
// package's function; that view takes precedence inside that package.
func (e *Engine) contractSeenFrom(pkgPath string, fn *ssa.Function) *Contract {
	if vs := e.views[pkgPath]; vs != nil {
		if c := vs[e.fnKey(fn)]; c != nil {
			return c
		}
	}
	return e.contracts[fn]
}

// viewTarget resolves "pkgname.Key" against the imports of pkg.
func (e *Engine) viewTarget(pkg *types.Package, key string) *ssa.Function {
	i := strings.Index(key, ".")
	if i <= 0 || strings.HasPrefix(key, "(") {
		return nil
	}
	name, rest := key[:i], key[i+1:]
	for _, imp := range pkg.Imports() {
		if imp.Name() == name {
			if m := e.phase1Idx[imp.Path()]; m != nil {
				return m[rest]
			}
		}
	}
	return nil
}

func (e *Engine) overlayDecl(f *types.Func) *ast.FuncDecl {
	if d, ok := e.overlayDecls[f]; ok {
		return d
	}
	if o := f.Origin(); o != nil {
		return e.overlayDecls[o]
	}
	return nil
}

func (e *Engine) ghostPred(f *types.Func) *Pred { return e.ghostPreds[f] }

func namedKey(t types.Type) string {
	if p, ok := t.(*types.Pointer); ok {
		t = p.Elem()
	}
	switch n := t.(type) {
	case *types.Named:
		if n.Obj().Pkg() == nil {
			return n.Obj().Name()
		}
		return n.Obj().Pkg().Path() + "." + n.Obj().Name()
	case *types.Alias:
		return namedKey(types.Unalias(n))
	}
	return ""
}

func (e *Engine) typeContract(t types.Type) *Contract {
	k := namedKey(t)
	if k == "" {
		return nil
	}
	return e.typeContracts[k]
}

func (e *Engine) methodContract(t types.Type, method string) *Contract {
	k := namedKey(t)
	if k == "" {
		return nil
	}
	if c := e.typeContracts[k+"."+method]; c != nil {
		return c
	}
	// embedded interfaces: look for a contract on any repo interface that declares the method
	if it, ok := t.Underlying().(*types.Interface); ok {
		for i := 0; i < it.NumEmbeddeds(); i++ {
			if c := e.methodContract(it.EmbeddedType(i), method); c != nil {
				return c
			}
		}
	}
	return nil
}

func (e *Engine) loopInfo(fn *ssa.Function) *loopInfo {
	if v, ok := e.loopCache.Load(fn); ok {
		li, _ := v.(*loopInfo)
		return li
	}
	li := computeLoops(fn)
	e.loopCache.Store(fn, li)
	return li
}

func (e *Engine) loopSpec(fn *ssa.Function, ordinal int) *LoopSpec {
	con := e.contracts[fn]
	if con == nil {
		return nil
	}
	return con.Loops[ordinal]
}

func (e *Engine) implicitTags(fn *ssa.Function) []string {
	f := fn
	for f.Parent() != nil {
		f = f.Parent()
	}
	if f.Pkg == nil {
		if f.Origin() != nil && f.Origin().Pkg != nil {
			if ps := e.specs[f.Origin().Pkg.Pkg.Path()]; ps != nil {
				return ps.Implicit
			}
		}
		return nil
	}
	if ps := e.specs[f.Pkg.Pkg.Path()]; ps != nil {
		return ps.Implicit
	}
	return nil
}

func (e *Engine) posString(p token.Pos) string {
	if !p.IsValid() {
		return ""
	}
	pos := e.fset.Position(p)
	rel, err := filepath.Rel(e.repo, pos.Filename)
	if err != nil {
		rel = pos.Filename
	}
	return fmt.Sprintf("%s:%d", rel, pos.Line)
}

// exprTextAt returns the source text of the innermost expression of the wanted
// shape enclosing pos.
func (e *Engine) exprTextAt(p token.Pos, want string) string {
	pos := e.fset.Position(p)
	f := e.files[pos.Filename]
	if f == nil {
		return ""
	}
	path, _ := astutil.PathEnclosingInterval(f, p, p)
	for _, n := range path {
		ok := false
		switch n.(type) {
		case *ast.IndexExpr:
			ok = want == "index"
		case *ast.SliceExpr:
			ok = want == "slice"
		case *ast.BinaryExpr:
			ok = want == "binary"
		case *ast.CallExpr:
			ok = want == "call" || want == "index" || want == "slice"
		case *ast.TypeAssertExpr:
			ok = want == "typeassert"
		case *ast.SelectorExpr:
			ok = want == "selector" || want == "deref"
		case *ast.StarExpr, *ast.UnaryExpr:
			ok = want == "deref"
		case *ast.AssignStmt, *ast.ExprStmt, *ast.ReturnStmt, *ast.IncDecStmt:
			ok = true // fall back to the statement
		}
		if ok {
			return nodeText(e.fset, n)
		}
	}
	return ""
}

func nodeText(fset *token.FileSet, n ast.Node) string {
	var sb strings.Builder
	switch v := n.(type) {
	case ast.Expr:
		sb.WriteString(types.ExprString(v))
	case *ast.AssignStmt:
		for i, l := range v.Lhs {
			if i > 0 {
				sb.WriteString(", ")
			}
			sb.WriteString(types.ExprString(l))
		}
		sb.WriteString(" " + v.Tok.String() + " ")
		for i, r := range v.Rhs {
			if i > 0 {
				sb.WriteString(", ")
			}
			sb.WriteString(types.ExprString(r))
		}
	case *ast.ExprStmt:
		sb.WriteString(types.ExprString(v.X))
	case *ast.IncDecStmt:
		sb.WriteString(types.ExprString(v.X) + v.Tok.String())
	case *ast.ReturnStmt:
		sb.WriteString("return")
		for i, r := range v.Results {
			if i > 0 {
				sb.WriteString(",")
			}
			sb.WriteString(" " + types.ExprString(r))
		}
	}
	s := sb.String()
	if len(s) > 80 {
		s = s[:80]
	}
	return s
}

func (e *Engine) globalFor(v *types.Var) *ssa.Global {
	sp := e.prog.Package(v.Pkg())
	if sp == nil {
		return nil
	}
	g, _ := sp.Members[v.Name()].(*ssa.Global)
	return g
}

func (e *Engine) globalIsConstant(comp string) bool { return true }

func (e *Engine) compSortByName(x *Exec, name string) Sort {
	if s, ok := x.compSorts[name]; ok {
		return s
	}
	return ""
}

// implementers lists the type ids of all repo types implementing interface t
// (closed world for repo-declared interfaces with unexported or repo-only methods).
func (e *Engine) implementers(w *World, t types.Type) []*Term {
	it, ok := t.Underlying().(*types.Interface)
	if !ok || it.NumMethods() == 0 {
		return nil
	}
	k := namedKey(t)
	if !strings.HasPrefix(k, repoModule) {
		return nil
	}
	// only closed when the interface has an unexported method
	closed := false
	for i := 0; i < it.NumMethods(); i++ {
		if !it.Method(i).Exported() {
			closed = true
		}
	}
	if !closed {
		return nil
	}
	var impls []types.Type
	if v, ok := e.implCache.Load(k); ok {
		impls = v.([]types.Type)
	} else {
		for _, p := range e.pkgs {
			if !strings.HasPrefix(p.PkgPath, repoModule) {
				continue
			}
			sc := p.Types.Scope()
			for _, n := range sc.Names() {
				tn, ok := sc.Lookup(n).(*types.TypeName)
				if !ok || tn.IsAlias() {
					continue
				}
				if _, isI := tn.Type().Underlying().(*types.Interface); isI {
					continue
				}
				if types.Implements(tn.Type(), it) {
					impls = append(impls, tn.Type())
				}
				if pt := types.NewPointer(tn.Type()); types.Implements(pt, it) && !types.Implements(tn.Type(), it) {
					impls = append(impls, pt)
				}
			}
		}
		sort.Slice(impls, func(i, j int) bool { return impls[i].String() < impls[j].String() })
		e.implCache.Store(k, impls)
	}
	var ids []*Term
	for _, im := range impls {
		ids = append(ids, w.TypeID(im))
	}
	return ids
}

// implementerTypes: the concrete types of a closed repo interface (nil if open).
func (e *Engine) implementerTypes(t types.Type) []types.Type {
	w := NewWorld("int")
	if e.implementers(w, t) == nil {
		return nil
	}
	v, _ := e.implCache.Load(namedKey(t))
	ts, _ := v.([]types.Type)
	return ts
}

// uncomparableIDs: type ids (already registered in w) of types whose == panics.
func (e *Engine) uncomparableIDs(w *World) []*Term {
	var out []*Term
	for i, t := range w.typeByID {
		if !types.Comparable(t) {
			out = append(out, IntLit(int64(i+1), SInt))
		}
	}
	return out
}

// intModeBitop: x | c for a literal power of two c adds c when 0 <= x < c.
func (e *Engine) intModeBitop(x *Exec, op token.Token, a, b *Term, t types.Type) *Term {
	if op == token.XOR {
		// x ^ 1 on a 0/1 value
		if a.isLit && !b.isLit {
			a, b = b, a
		}
		if b.isLit && b.lit.IsInt64() && b.lit.Int64() == 1 {
			x.w.declFun("bxor", "(Int Int) Int")
			return Ite(Eq(a, IntLit(0, SInt)), IntLit(1, SInt), Ite(Eq(a, IntLit(1, SInt)), IntLit(0, SInt), App("bxor", SInt, a, b)))
		}
		return nil
	}
	if op != token.OR {
		return nil
	}
	if a.isLit && !b.isLit {
		a, b = b, a
	}
	if !b.isLit || b.lit.Sign() <= 0 {
		return nil
	}
	c := b.lit
	if new(big.Int).And(c, new(big.Int).Sub(c, big.NewInt(1))).Sign() != 0 {
		return nil
	}
	x.w.declFun("bor", "(Int Int) Int")
	in := And(App("<=", SBool, IntLit(0, SInt), a), App("<", SBool, a, b))
	return Ite(in, x.w.Add(a, b), App("bor", SInt, a, b))
}

func (e *Engine) quickFeasible(x *Exec, st *State) bool {
	if x.feas == nil {
		return true
	}
	return x.feas.feasible(x.w, st.pc)
}

func (e *Engine) inlinable(fn *ssa.Function) bool {
	return fn.Blocks != nil && e.inRepo(fn) && e.loopInfo(fn) == nil
}

// typeInvFor returns the invariant pred (overlay declaration) of a named type.
func (e *Engine) typeInvFor(t types.Type) (*ast.FuncDecl, *types.Info, string) {
	n, ok := t.(*types.Named)
	if !ok || n.Obj().Pkg() == nil {
		return nil, nil, ""
	}
	ps := e.specs[n.Obj().Pkg().Path()]
	if ps == nil || ps.TypeInvs == nil {
		return nil, nil, ""
	}
	pn, ok := ps.TypeInvs[n.Obj().Name()]
	if !ok {
		return nil, nil, ""
	}
	for _, pr := range ps.Preds {
		if pr.Name == pn && pr.Decl != nil {
			for _, p := range e.pkgs {
				if p.PkgPath == ps.Path {
					return pr.Decl, p.TypesInfo, ps.Path
				}
			}
		}
	}
	return nil, nil, ""
}

// dynCallKind looks up a dyncall directive for the signature of a dynamic call.
func (e *Engine) dynCallKind(fn *ssa.Function, t types.Type) string {
	f := fn
	for f.Parent() != nil {
		f = f.Parent()
	}
	if f.Pkg == nil {
		return ""
	}
	ps := e.specs[f.Pkg.Pkg.Path()]
	if ps == nil || ps.DynCalls == nil {
		return ""
	}
	key := types.TypeString(t.Underlying(), func(p *types.Package) string { return p.Name() })
	return ps.DynCalls[key]
}

// specByPkgName finds the spec of the package with the given name.
func (e *Engine) specByPkgName(name string) *PkgSpec {
	for p, ps := range e.specs {
		if p == name || strings.HasSuffix(p, "/"+name) {
			return ps
		}
	}
	return nil
}

// ghostRetType returns the declared result type text of ghost function `name`
// in the package of "pkg.Iface".
func (e *Engine) ghostRetType(iface, name string) string {
	i := strings.Index(iface, ".")
	if i < 0 {
		return ""
	}
	ps := e.specByPkgName(iface[:i])
	if ps == nil {
		return ""
	}
	for _, p := range ps.Preds {
		if p.Ghost && p.Name == name {
			return p.Ret
		}
	}
	return ""
}

// unrollable: inlined helpers whose loops are unrolled at the call site instead of being cut at an
// invariant (their trip count is a literal there, e.g. a variadic option list).
func (e *Engine) unrollable(fn *ssa.Function) bool {
	f := fn
	for f.Parent() != nil {
		f = f.Parent()
	}
	if f.Pkg == nil {
		return false
	}
	ps := e.specs[f.Pkg.Pkg.Path()]
	if ps == nil {
		// packages without a contract file: only the flag-passing helper package is unrolled
		return strings.HasSuffix(f.Pkg.Pkg.Path(), "/types/node/bc")
	}
	return false
}

// cutFor returns the cut clause attached to block b of fn (the n-th block with that comment).
func (e *Engine) cutFor(fn *ssa.Function, b *ssa.BasicBlock) *Clause {
	con := e.contracts[fn]
	if con == nil || len(con.Cuts) == 0 {
		return nil
	}
	ord := 0
	for _, o := range fn.Blocks {
		if o.Comment == b.Comment {
			if o == b {
				break
			}
			ord++
		}
	}
	for _, c := range con.Cuts {
		if c.CutComment == b.Comment && c.CutOrd == ord {
			return c
		}
	}
	return nil
}


// callSitePositions: positions, in source order, of the call sites of fn whose source text
// contains sub ("sub #N" selects the N-th).
func (e *Engine) callSitePositions(fn *ssa.Function, site string) []token.Pos {
	sub, ord := site, 0
	if i := strings.LastIndex(sub, "#"); i > 0 {
		if n, err := strconv.Atoi(strings.TrimSpace(sub[i+1:])); err == nil {
			sub, ord = strings.TrimSpace(sub[:i]), n
		}
	}
	seen := map[token.Pos]bool{}
	var ps []int
	for _, b := range fn.Blocks {
		for _, in := range b.Instrs {
			switch in.(type) {
			case *ssa.Call, *ssa.Defer, *ssa.Go:
			default:
				continue
			}
			p := in.Pos()
			if !p.IsValid() || seen[p] {
				continue
			}
			seen[p] = true
			if siteMatches(e.exprTextAt(p, "call"), sub) {
				ps = append(ps, int(p))
			}
		}
	}
	sort.Ints(ps)
	var out []token.Pos
	for i, p := range ps {
		if ord == 0 || ord == i+1 {
			out = append(out, token.Pos(p))
		}
	}
	return out
}

// scopedLocal resolves a local variable name as Go scoping does at position pos of fn: the
// declaration visible there. Returns nil when the name is not a local variable of fn at pos.
func scopedLocal(fn *ssa.Function, name string, pos token.Pos) *types.Var {
	if fn.Pkg == nil || !pos.IsValid() {
		return nil
	}
	sc := fn.Pkg.Pkg.Scope().Innermost(pos)
	if sc == nil {
		return nil
	}
	_, obj := sc.LookupParent(name, pos)
	v, ok := obj.(*types.Var)
	if !ok || v.IsField() || v.Parent() == nil || v.Parent() == fn.Pkg.Pkg.Scope() {
		return nil
	}
	return v
}
