package main

// Replay of solver models against the real code: for functions (and lemmas)
// whose inputs are scalars, a Go test is generated from the model, injected
// with `go test -overlay`, and run against the current tree.

import (
	"encoding/json"
	"fmt"
	"go/types"
	"math/big"
	"os"
	"os/exec"
	"path/filepath"
	"regexp"
	"strings"
)

var modelRe = regexp.MustCompile(`\(define-fun ([^\s()]+) \(\) (\(_ BitVec \d+\)|Int|Bool|\(_ FloatingPoint 11 53\))\s+((?:#b[01]+)|(?:#x[0-9a-fA-F]+)|(?:\(- \d+\))|(?:\d+)|true|false|\(fp [^)]*\)|\(_ [^)]*\))\)`)

// parseModel extracts the zero-ary definitions of a solver model: name -> value s-expression.
func parseModel(out string) map[string]string {
	m := map[string]string{}
	i := 0
	for {
		j := strings.Index(out[i:], "(define-fun ")
		if j < 0 {
			break
		}
		start := i + j
		end := matchParen(out, start)
		if end < 0 {
			break
		}
		body := strings.Join(strings.Fields(out[start+len("(define-fun "):end]), " ")
		// body: NAME () SORT VALUE
		sp := strings.Index(body, " ")
		if sp > 0 && strings.HasPrefix(body[sp+1:], "() ") {
			name := body[:sp]
			rest := body[sp+4:]
			// skip the sort (one s-expr)
			var val string
			if strings.HasPrefix(rest, "(") {
				e := matchParen(rest, 0)
				val = strings.TrimSpace(rest[e+1:])
			} else {
				k := strings.Index(rest, " ")
				val = strings.TrimSpace(rest[k+1:])
			}
			m[name] = val
		}
		i = end + 1
	}
	return m
}

func matchParen(s string, i int) int {
	depth := 0
	for j := i; j < len(s); j++ {
		switch s[j] {
		case '(':
			depth++
		case ')':
			depth--
			if depth == 0 {
				return j
			}
		}
	}
	return -1
}

// splitSexpr splits "(f a (b c) d)" into ["f","a","(b c)","d"].
func splitSexpr(s string) []string {
	s = strings.TrimSpace(s)
	if !strings.HasPrefix(s, "(") {
		return []string{s}
	}
	s = s[1 : len(s)-1]
	var out []string
	i := 0
	for i < len(s) {
		if s[i] == ' ' {
			i++
			continue
		}
		if s[i] == '(' {
			e := matchParen(s, i)
			out = append(out, s[i:e+1])
			i = e + 1
			continue
		}
		j := i
		for j < len(s) && s[j] != ' ' {
			j++
		}
		out = append(out, s[i:j])
		i = j
	}
	return out
}

func modelInt(v string, signed bool, width int) (*big.Int, bool) {
	n := new(big.Int)
	switch {
	case strings.HasPrefix(v, "#b"):
		n.SetString(v[2:], 2)
	case strings.HasPrefix(v, "#x"):
		n.SetString(v[2:], 16)
	case strings.HasPrefix(v, "(- "):
		n.SetString(strings.TrimSuffix(v[3:], ")"), 10)
		n.Neg(n)
		return n, true
	default:
		if _, ok := n.SetString(v, 10); !ok {
			return nil, false
		}
		return n, true
	}
	if signed && width > 0 && n.Bit(width-1) == 1 {
		n.Sub(n, new(big.Int).Lsh(big.NewInt(1), uint(width)))
	}
	return n, true
}

func scalarLiteral(t types.Type, v string, q types.Qualifier) (string, bool) {
	if st, ok := t.Underlying().(*types.Struct); ok {
		parts := splitSexpr(v)
		if len(parts) != st.NumFields()+1 || !strings.HasPrefix(parts[0], "mk_") {
			return "", false
		}
		var fs []string
		for i := 0; i < st.NumFields(); i++ {
			l, ok := scalarLiteral(st.Field(i).Type(), parts[i+1], q)
			if !ok {
				return "", false
			}
			fs = append(fs, st.Field(i).Name()+": "+l)
		}
		return types.TypeString(t, q) + "{" + strings.Join(fs, ", ") + "}", true
	}
	if _, ok := t.Underlying().(*types.Pointer); ok {
		if v == "0" {
			return "nil", true
		}
		return "", false
	}
	b, ok := t.Underlying().(*types.Basic)
	if !ok {
		return "", false
	}
	if b.Kind() == types.UnsafePointer {
		if v == "0" {
			return "nil", true
		}
		return "", false
	}
	ts := types.TypeString(t, q)
	switch {
	case b.Info()&types.IsBoolean != 0:
		return v, v == "true" || v == "false"
	case b.Info()&types.IsInteger != 0:
		n, ok := modelInt(v, b.Info()&types.IsUnsigned == 0, intWidth(b))
		if !ok {
			return "", false
		}
		return fmt.Sprintf("%s(%s)", ts, n.String()), true
	case b.Info()&types.IsFloat != 0:
		if strings.HasPrefix(v, "(fp ") {
			parts := strings.Fields(strings.Trim(v, "()"))
			if len(parts) == 4 {
				bits := strings.TrimPrefix(parts[1], "#b") + strings.TrimPrefix(parts[2], "#b") + strings.TrimPrefix(parts[3], "#b")
				n := new(big.Int)
				if strings.HasPrefix(parts[2], "#x") || strings.HasPrefix(parts[3], "#x") {
					return "", false
				}
				n.SetString(bits, 2)
				return fmt.Sprintf("math.Float64frombits(%s)", n.String()), true
			}
		}
		switch {
		case strings.Contains(v, "NaN"):
			return "math.NaN()", true
		case strings.Contains(v, "+oo"):
			return "math.Inf(1)", true
		case strings.Contains(v, "-oo"):
			return "math.Inf(-1)", true
		case strings.Contains(v, "+zero"):
			return "0.0", true
		case strings.Contains(v, "-zero"):
			return "math.Copysign(0, -1)", true
		}
	}
	return "", false
}

const replayHelpers = `
func old[T any](x T) T { panic("spec-only") }
func __forall(f any) bool { panic("spec-only") }
func __exists(f any) bool { panic("spec-only") }
func __imp(a, b bool) bool { return !a || b }
func elems[T any](s []T) []T { panic("spec-only") }
func allelems[T any](s []T) []T { panic("spec-only") }
func arr[T any](s []T) int { panic("spec-only") }
func off[T any](s []T) int { panic("spec-only") }
func ref(p any) int { panic("spec-only") }
func fresh(p any) bool { panic("spec-only") }
func allocated(p any) bool { panic("spec-only") }
func same[T any](a, b []T) bool { panic("spec-only") }
func ite[T any](c bool, a, b T) T { if c { return a }; return b }
func dyntype(x any) int { panic("spec-only") }
func typeid[T any]() int { panic("spec-only") }
func mapdom[K comparable, V any](m map[K]V, k K) bool { _, ok := m[k]; return ok }
func mapof[K comparable, V any](m map[K]V) map[K]V { return m }
func fnid(f any) int { panic("spec-only") }
func strat(s string, i int) int { return int(s[i]) }
func bits(f float64) uint64 { return math.Float64bits(f) }
func isnan(f float64) bool { return f != f }
func feq(a, b float64) bool { return a == b }
func fsame(a, b float64) bool { return math.Float64bits(a) == math.Float64bits(b) || (a != a && b != b) }
func eqv[T any](a, b T) bool { panic("spec-only") }
func atoiOK(s string) bool { panic("spec-only") }
func parseFloatOK(s string) bool { panic("spec-only") }
func field[T any](x any, name string) T { panic("spec-only") }
func fst2[A, B any](a A, b B) A { return a }
func snd2[A, B any](a A, b B) B { return b }
`

// tryReplay attempts to confirm a sat obligation on the real code. Returns the
// replay text and whether the violation reproduced.
func (r *Report) tryReplay(no *NamedObl) (string, bool) {
	o := no.failing
	if o == nil || o.Status != "sat" {
		return "", false
	}
	var con *Contract
	var unit *UnitResult
	for _, u := range r.units {
		if u.Key == o.Unit {
			unit = u
		}
	}
	if unit == nil {
		return "", false
	}
	for _, ps := range r.eng.specs {
		for _, c := range ps.Contracts {
			k := shortPkg(c.Pkg) + "." + c.Key
			if c.Kind == "lemma" {
				k = shortPkg(c.Pkg) + ".lemma " + c.Key
			}
			if k == o.Unit {
				con = c
			}
		}
	}
	if con == nil {
		return "", false
	}
	model := parseModel(o.Model)
	ps := r.eng.specs[con.Pkg]
	var pkg *types.Package
	var dir string
	for _, p := range r.eng.pkgs {
		if p.PkgPath == con.Pkg {
			pkg = p.Types
			dir = filepath.Dir(p.GoFiles[0])
		}
	}
	if pkg == nil {
		return "", false
	}
	q := func(p *types.Package) string {
		if p == pkg {
			return ""
		}
		return p.Name()
	}
	// argument literals, in parameter order
	var lits []string
	var desc []string
	getLit := func(name string, t types.Type, prefix string) bool {
		var val string
		found := false
		for k, v := range model {
			if strings.HasPrefix(k, prefix+name+"!") {
				val, found = v, true
			}
		}
		if !found {
			// unconstrained by the model: any value works; use zero
			switch b := t.Underlying().(type) {
			case *types.Basic:
				if b.Info()&types.IsBoolean != 0 {
					val = "false"
				} else if b.Info()&types.IsFloat != 0 {
					val = "(_ +zero 11 53)"
				} else {
					val = "0"
				}
			default:
				lits = append(lits, types.TypeString(t, q)+"{}")
				desc = append(desc, name+" = zero value")
				return true
			}
		}
		lit, ok := scalarLiteral(t, val, q)
		if !ok {
			return false
		}
		lits = append(lits, lit)
		desc = append(desc, name+" = "+lit)
		return true
	}
	var body strings.Builder
	switch con.Kind {
	case "lemma":
		fd := firstClauseFunc(con)
		if fd == nil {
			return "", false
		}
		info := r.eng.clauseInfo[firstClause(con)]
		for _, f := range fd.Type.Params.List {
			t := info.Types[f.Type].Type
			for _, nm := range f.Names {
				if !getLit(nm.Name, t, "v.") {
					return "", false
				}
			}
		}
		var cl *Clause
		for _, c := range con.Ensures {
			if strings.HasSuffix(no.Name, "#lemma["+c.Label+"]") {
				cl = c
			}
		}
		if cl == nil {
			return "", false
		}
		for _, c := range con.Requires {
			fmt.Fprintf(&body, "\tif !%s(%s) { t.Skip(\"model does not satisfy the lemma's requires\") }\n", c.GoName, strings.Join(lits, ", "))
		}
		fmt.Fprintf(&body, "\tif !%s(%s) { t.Fatalf(\"GOVC-REPLAY-CONFIRMED lemma clause %s is false for %s\") }\n", cl.GoName, strings.Join(lits, ", "), cl.Label, escapeQuotes(strings.Join(desc, ", ")))
	case "func":
		fn := r.eng.byKey[con.Pkg][con.Key]
		if fn == nil || fn.Parent() != nil {
			return "", false
		}
		sig := fn.Signature
		recvLit := ""
		if sig.Recv() != nil {
			n := sig.Recv().Name()
			if n == "" || n == "_" {
				n = "recv"
			}
			if !getLit(n, sig.Recv().Type(), "in.") {
				return "", false
			}
			recvLit = lits[0]
		}
		for i := 0; i < sig.Params().Len(); i++ {
			p := sig.Params().At(i)
			n := p.Name()
			if n == "" || n == "_" {
				n = fmt.Sprintf("_p%d", len(lits))
			}
			if !getLit(n, p.Type(), "in.") {
				return "", false
			}
		}
		call := ""
		argl := lits
		if recvLit != "" {
			argl = lits[1:]
			call = fmt.Sprintf("(%s).%s(%s)", recvLit, fn.Name(), strings.Join(argl, ", "))
		} else {
			name := fn.Name()
			if i := strings.Index(name, "["); i >= 0 {
				name = name[:i]
			}
			call = fmt.Sprintf("%s(%s)", name, strings.Join(argl, ", "))
		}
		nres := sig.Results().Len()
		var rv []string
		for i := 0; i < nres; i++ {
			rv = append(rv, fmt.Sprintf("r%d", i))
		}
		for _, c := range con.Requires {
			fmt.Fprintf(&body, "\tif !%s(%s) { t.Skip(\"model does not satisfy requires\") }\n", c.GoName, strings.Join(lits, ", "))
		}
		isPanicKind := no.Kind != "ensures" && no.Kind != "frame"
		fmt.Fprintf(&body, "\tdefer func() { if e := recover(); e != nil { ")
		if isPanicKind {
			fmt.Fprintf(&body, "t.Fatalf(\"GOVC-REPLAY-CONFIRMED %s panicked for %s: %%v\", e) } }()\n", escapeQuotes(call), escapeQuotes(strings.Join(desc, ", ")))
		} else {
			fmt.Fprintf(&body, "t.Logf(\"call panicked (refusal): %%v\", e) } }()\n")
		}
		if nres > 0 {
			fmt.Fprintf(&body, "\t%s := %s\n", strings.Join(rv, ", "), call)
			for _, v := range rv {
				fmt.Fprintf(&body, "\t_ = %s\n", v)
			}
		} else {
			fmt.Fprintf(&body, "\t%s\n", call)
		}
		if no.Kind == "ensures" {
			var cl *Clause
			for _, c := range con.Ensures {
				if strings.HasSuffix(no.Name, "#ensures["+c.Label+"]") {
					cl = c
				}
			}
			if cl == nil {
				return "", false
			}
			all := append(append([]string{}, lits...), rv...)
			fmt.Fprintf(&body, "\tif !%s(%s) { t.Fatalf(\"GOVC-REPLAY-CONFIRMED ensures[%s] is false for %s, result %%v\", %s) }\n",
				cl.GoName, strings.Join(all, ", "), cl.Label, escapeQuotes(strings.Join(desc, ", ")), strings.Join(rv, ", "))
		}
	default:
		return "", false
	}
	// build the overlay: executable clause functions + test
	ovSrc, err := r.eng.GenerateOverlay(ps, pkg, r.eng.byKey[con.Pkg])
	if err != nil {
		return "", false
	}
	ovSrc = strings.Replace(ovSrc, helperSrc, replayHelpers, 1)
	if !strings.Contains(ovSrc, "import math ") {
		pl := "package " + pkg.Name() + "\n"
		ovSrc = strings.Replace(ovSrc, pl, pl+"\nimport math \"math\"\n", 1) + "\nvar _ = math.NaN\n"
	}
	testSrc := fmt.Sprintf("//go:build verif\n\npackage %s\n\nimport (\n\t\"math\"\n\t\"testing\"\n)\n\nvar _ = math.NaN\n\nfunc TestGovcReplay(t *testing.T) {\n%s}\n", pkg.Name(), body.String())
	tmp, err := os.MkdirTemp("", "govc-replay")
	if err != nil {
		return "", false
	}
	defer os.RemoveAll(tmp)
	ovFile := filepath.Join(tmp, "ov.go")
	tsFile := filepath.Join(tmp, "replay_test.go")
	os.WriteFile(ovFile, []byte(ovSrc), 0o644)
	os.WriteFile(tsFile, []byte(testSrc), 0o644)
	ovJSON, _ := json.Marshal(map[string]any{"Replace": map[string]string{
		filepath.Join(dir, "zz_contracts_gen_verif.go"): ovFile,
		filepath.Join(dir, "zz_govc_replay_test.go"):     tsFile,
	}})
	ovj := filepath.Join(tmp, "overlay.json")
	os.WriteFile(ovj, ovJSON, 0o644)
	cmd := exec.Command("go", "test", "-tags", "verif", "-overlay", ovj, "-vet=off", "-count=1", "-timeout", "60s", "-run", "^TestGovcReplay$", ".")
	cmd.Dir = dir
	cmd.Env = goEnv()
	out, _ := cmd.CombinedOutput()
	confirmed := strings.Contains(string(out), "GOVC-REPLAY-CONFIRMED")
	var sb strings.Builder
	fmt.Fprintf(&sb, "--- replay on the real code (go test -overlay, package %s) ---\ninputs from the solver model: %s\n", con.Pkg, strings.Join(desc, ", "))
	fmt.Fprintf(&sb, "generated test:\n%s\noutput:\n%s\nreproduced: %v\n", testSrc, truncate(string(out), 4000), confirmed)
	return sb.String(), confirmed
}

func isScalar(t types.Type) bool {
	_, ok := t.Underlying().(*types.Basic)
	return ok
}

func escapeQuotes(s string) string {
	return strings.ReplaceAll(strings.ReplaceAll(s, "\\", "\\\\"), "\"", "\\\"")
}
