package main

// Ground instantiation of quantified assumptions with index terms that occur
// in the goal: a cheap, sound pre-pass that turns most array-property proofs
// into quantifier-free ones (the quantified originals are kept as well).

import (
	"sort"
	"strings"
)

// subst replaces atoms by name.
func subst(t *Term, m map[string]*Term) *Term {
	if len(t.Args) == 0 && t.Vars == nil {
		if r, ok := m[t.Op]; ok && t.str == "" || ok && t.str == t.Op {
			return r
		}
		if r, ok := m[t.String()]; ok {
			return r
		}
		return t
	}
	switch t.Op {
	case "forall", "exists":
		body := subst(t.Args[0], m)
		if t.Op == "forall" {
			var pats [][]*Term
			for _, p := range t.Pats {
				var q []*Term
				for _, pt := range p {
					q = append(q, subst(pt, m))
				}
				pats = append(pats, q)
			}
			return Forall(t.Vars, body, pats...)
		}
		return Exists(t.Vars, body)
	case "const-array":
		return ConstArray(t.Sort, subst(t.Args[0], m))
	}
	changed := false
	args := make([]*Term, len(t.Args))
	for i, a := range t.Args {
		args[i] = subst(a, m)
		if args[i] != a {
			changed = true
		}
	}
	if !changed {
		return t
	}
	// rebuild through the simplifying constructors where cheap
	switch t.Op {
	case "and":
		return And(args...)
	case "or":
		return Or(args...)
	case "not":
		return Not(args[0])
	case "=>":
		return Imp(args[0], args[1])
	case "ite":
		return Ite(args[0], args[1], args[2])
	case "select":
		return Select(args[0], args[1])
	case "=":
		if args[0].Sort == args[1].Sort {
			return Eq(args[0], args[1])
		}
	}
	return App(t.Op, t.Sort, args...)
}

func mentionsAny(t *Term, names map[string]bool) bool {
	if len(names) == 0 {
		return false
	}
	s := t.String()
	for n := range names {
		if strings.Contains(s, n) {
			return true
		}
	}
	return false
}

// collectIndexTerms gathers candidate index terms from select applications.
func collectIndexTerms(t *Term, is Sort, bound map[string]bool, out map[string]*Term, limit int) {
	collectIndexTermsW(nil, t, is, bound, out, limit, map[string]bool{})
}

func collectIndexTermsW(w *World, t *Term, is Sort, bound map[string]bool, out map[string]*Term, limit int, seen map[string]bool) {
	if len(out) >= limit {
		return
	}
	if w != nil && len(t.Args) == 0 {
		if d, ok := w.defs[t.Op]; ok && !seen[t.Op] && d.T != nil {
			seen[t.Op] = true
			collectIndexTermsW(w, d.T, is, bound, out, limit, seen)
		}
		return
	}
	if t.Op == "forall" || t.Op == "exists" {
		b2 := map[string]bool{}
		for k := range bound {
			b2[k] = true
		}
		for _, v := range t.Vars {
			b2[v.Op] = true
		}
		collectIndexTermsW(w, t.Args[0], is, b2, out, limit, seen)
		return
	}
	if t.Op == "select" && len(t.Args) == 2 && t.Args[1].Sort == is {
		idx := t.Args[1]
		add := func(c *Term) {
			if c.Sort == is && !mentionsAny(c, bound) {
				if _, ok := out[c.String()]; !ok && len(out) < limit {
					out[c.String()] = c
				}
			}
		}
		add(idx)
		if (idx.Op == "+" || idx.Op == "bvadd") && len(idx.Args) == 2 {
			add(idx.Args[1])
			add(idx.Args[0])
		}
	}
	for _, a := range t.Args {
		collectIndexTermsW(w, a, is, bound, out, limit, seen)
	}
}

// instantiate returns extended assumptions and the (skolemised) goal.
func instantiate(w *World, assume []*Term, goal *Term) ([]*Term, *Term) {
	return instantiateMode(w, assume, goal, false)
}

// instantiateMode: rich=false takes candidate index terms from the goal only (small queries, the
// common case); rich=true also harvests the assumptions (needed by some array-invariant proofs).
func instantiateMode(w *World, assume []*Term, goal *Term, rich bool) ([]*Term, *Term) {
	if goal == nil {
		return assume, goal
	}
	out := append([]*Term(nil), assume...)
	// peel implications and skolemise universal goals
	for {
		if goal.Op == "=>" && len(goal.Args) == 2 {
			out = append(out, goal.Args[0])
			goal = goal.Args[1]
			continue
		}
		if goal.Op == "forall" && len(goal.Vars) > 0 {
			m := map[string]*Term{}
			for _, v := range goal.Vars {
				m[v.Op] = w.Fresh("sk."+strings.SplitN(v.Op, "!", 2)[0], v.Sort)
			}
			goal = subst(goal.Args[0], m)
			continue
		}
		break
	}
	// existential goal over one integer: offer the integer results of the calls made on this path
	// as witnesses (proving the disjunction of the instances proves the goal)
	if goal.Op == "exists" && len(goal.Vars) == 1 && goal.Vars[0].Sort == w.IS {
		wit := map[string]*Term{}
		var order []string
		var find func(t *Term)
		seenW := map[string]bool{}
		find = func(t *Term) {
			if t.Op == "forall" || t.Op == "exists" {
				return
			}
			if len(t.Args) == 0 {
				if t.Sort == w.IS && strings.HasPrefix(t.Op, "r.") && !seenW[t.Op] {
					seenW[t.Op] = true
					wit[t.Op] = t
					order = append(order, t.Op)
				}
				return
			}
			k := t.String()
			if seenW[k] {
				return
			}
			seenW[k] = true
			for _, a := range t.Args {
				find(a)
			}
		}
		for _, a := range out {
			find(a)
		}
		if len(order) > 0 && len(order) <= 8 {
			var ds []*Term
			for _, k := range order {
				ds = append(ds, subst(goal.Args[0], map[string]*Term{goal.Vars[0].Op: wit[k]}))
			}
			goal = Or(ds...)
		}
	}
	hasQ := false
	for _, a := range out {
		if a.Op == "forall" {
			hasQ = true
		}
	}
	if !hasQ {
		return out, goal
	}
	cands := map[string]*Term{}
	var candOrder []*Term
	seen := map[string]bool{}
	collect := func(t *Term, limit int) {
		before := map[string]bool{}
		for k := range cands {
			before[k] = true
		}
		collectIndexTermsW(w, t, w.IS, nil, cands, limit, seen)
		var added []string
		for k := range cands {
			if !before[k] {
				added = append(added, k)
			}
		}
		sort.Strings(added)
		for _, k := range added {
			candOrder = append(candOrder, cands[k])
		}
	}
	collect(goal, 10)
	nGoal := len(candOrder)
	if rich {
		for i := len(out) - 1; i >= 0; i-- {
			if a := out[i]; a.Op != "forall" {
				collect(a, 14)
			}
		}
		for _, a := range out {
			if a.Op == "forall" {
				collect(a, 18)
			}
		}
	} else if len(cands) < 4 {
		// few index terms in the goal: also look at the most recent ground assumptions
		for i := len(out) - 1; i >= 0 && len(cands) < 10; i-- {
			if a := out[i]; a.Op != "forall" {
				collect(a, 10)
			}
		}
	}
	// candidates in order of discovery (those from the goal first)
	cl := append([]*Term(nil), candOrder...)
	// lemma axioms (any sorts): instantiate by argument-position matching against ground applications
	for _, ax := range w.axioms {
		if ax.Op == "forall" && ax.Lemma {
			out = append(out, matchInstances(ax, append(append([]*Term{}, out...), goal), 48)...)
		}
	}
	// ground select applications, by array term: goal first, then the assumptions latest first
	groundSel := map[string][]*Term{}
	{
		seenG := map[string]bool{}
		collectGroundSelects(w, goal, groundSel, seenG)
		for i := len(out) - 1; i >= 0; i-- {
			if out[i].Op != "forall" {
				collectGroundSelects(w, out[i], groundSel, seenG)
			}
		}
	}
	n := len(out)
	for i := 0; i < n; i++ {
		a := out[i]
		if a.Op != "forall" || len(a.Vars) == 0 || len(a.Vars) > 2 {
			continue
		}
		ok := true
		for _, v := range a.Vars {
			if v.Sort != w.IS {
				ok = false
			}
		}
		if !ok {
			continue
		}
		if len(a.Vars) == 1 {
			seenInst := map[string]bool{}
			add := func(c *Term) {
				if seenInst[c.String()] {
					return
				}
				seenInst[c.String()] = true
				out = append(out, subst(a.Args[0], map[string]*Term{a.Vars[0].Op: c}))
			}
			// trigger matching first: ground selects on the same array term as a select in the body
			for _, c := range triggerInstances(w, a, groundSel, 16) {
				add(c)
			}
			for _, c := range cl {
				add(c)
			}
			// offset solving: the body indexes with (+ A v); for a ground index idx use v := idx - A
			offs := map[string]*Term{}
			collectOffsets(a.Args[0], a.Vars[0].Op, offs)
			n := 0
			ngo := nGoal
			if ngo == 0 || ngo > len(cl) {
				ngo = len(cl)
			}
			for _, ok := range sortedKeys(offs) {
				for _, c := range cl[:ngo] {
					if n > 12 {
						break
					}
					if c.String() == ok {
						continue
					}
					add(w.Sub(c, offs[ok]))
					n++
				}
			}
		} else {
			// pairs: every goal-derived candidate with every candidate, in both positions
			cnt := 0
			done := map[string]bool{}
			pair := func(c1, c2 *Term) {
				k := c1.String() + "|" + c2.String()
				if done[k] || cnt > 300 {
					return
				}
				done[k] = true
				out = append(out, subst(a.Args[0], map[string]*Term{a.Vars[0].Op: c1, a.Vars[1].Op: c2}))
				cnt++
			}
			ng := nGoal
			if ng == 0 || ng > len(cl) {
				ng = len(cl)
			}
			for _, g := range cl[:ng] {
				for _, c := range cl {
					pair(g, c)
					pair(c, g)
				}
			}
		}
	}
	// interface values: a value of dynamic type T is the box of its T value (interface equality is
	// equality of dynamic type and value): for every ground unbox_T(i_val v) add the guarded fact
	if len(w.boxTypes) > 0 {
		seenB := map[string]bool{}
		var facts []*Term
		var walk func(t *Term)
		walk = func(t *Term) {
			if t.Op == "forall" || t.Op == "exists" {
				return
			}
			if strings.HasPrefix(t.Op, "unbox_") && len(t.Args) == 1 && t.Args[0].Op == "i_val" && len(t.Args[0].Args) == 1 {
				k := strings.TrimPrefix(t.Op, "unbox_")
				if bt, ok := w.boxTypes[k]; ok && !seenB[t.String()] && !strings.Contains(t.String(), "!q") {
					seenB[t.String()] = true
					v := t.Args[0].Args[0]
					pl := t.Args[0]
					facts = append(facts, Imp(Eq(w.iface.Get(v, 0), w.TypeID(bt)), Eq(pl, App("box_"+k, SInt, t))))
				}
			}
			for _, a := range t.Args {
				walk(a)
			}
		}
		for _, a := range out {
			walk(a)
		}
		walk(goal)
		out = append(out, facts...)
	}
	return out, goal
}

// collectOffsets finds terms A such that the body contains a select index (+ A v) or (+ v A).
func collectOffsets(t *Term, v string, out map[string]*Term) {
	if t.Op == "select" && len(t.Args) == 2 {
		idx := t.Args[1]
		if (idx.Op == "+" || idx.Op == "bvadd") && len(idx.Args) == 2 {
			a, b := idx.Args[0], idx.Args[1]
			if b.Op == v && len(b.Args) == 0 && !strings.Contains(a.String(), v) {
				out[a.String()] = a
			}
			if a.Op == v && len(a.Args) == 0 && !strings.Contains(b.String(), v) {
				out[b.String()] = b
			}
		}
	}
	for _, c := range t.Args {
		collectOffsets(c, v, out)
	}
}

// matchInstances instantiates a quantified lemma by matching: a bound variable that occurs as the
// p-th argument of function g in the lemma takes the p-th arguments of the ground applications of g
// found in the given terms.
func matchInstances(lemma *Term, ground []*Term, limit int) []*Term {
	bound := map[string]bool{}
	for _, v := range lemma.Vars {
		bound[v.Op] = true
	}
	// positions: var -> list of (fun, argpos)
	type pos struct {
		fun string
		p   int
	}
	where := map[string][]pos{}
	var walk func(t *Term)
	walk = func(t *Term) {
		if len(t.Args) > 0 && t.Op != "forall" && t.Op != "exists" {
			for i, a := range t.Args {
				if len(a.Args) == 0 && bound[a.Op] && strings.HasPrefix(t.Op, "sf_") {
					where[a.Op] = append(where[a.Op], pos{t.Op, i})
				}
			}
		}
		for _, a := range t.Args {
			walk(a)
		}
	}
	walk(lemma.Args[0])
	// ground applications
	apps := map[string][]*Term{}
	seen := map[string]bool{}
	var collect func(t *Term, b map[string]bool)
	collect = func(t *Term, b map[string]bool) {
		if t.Op == "forall" || t.Op == "exists" {
			return
		}
		if strings.HasPrefix(t.Op, "sf_") && len(t.Args) > 0 && !seen[t.String()] {
			seen[t.String()] = true
			apps[t.Op] = append(apps[t.Op], t)
		}
		if t.Def != nil {
			collect(t.Def, b)
		}
		for _, a := range t.Args {
			collect(a, b)
		}
	}
	for _, g := range ground {
		collect(g, nil)
	}
	cands := make([][]*Term, len(lemma.Vars))
	for i, v := range lemma.Vars {
		have := map[string]bool{}
		for _, ps := range where[v.Op] {
			for _, app := range apps[ps.fun] {
				if ps.p < len(app.Args) {
					c := app.Args[ps.p]
					if c.Sort == v.Sort && !have[c.String()] {
						have[c.String()] = true
						cands[i] = append(cands[i], c)
					}
				}
			}
		}
		if len(cands[i]) == 0 {
			return nil
		}
		if len(cands[i]) > 4 {
			cands[i] = cands[i][:4]
		}
	}
	var out []*Term
	var rec func(i int, m map[string]*Term)
	rec = func(i int, m map[string]*Term) {
		if len(out) >= limit {
			return
		}
		if i == len(lemma.Vars) {
			cp := map[string]*Term{}
			for k, v := range m {
				cp[k] = v
			}
			out = append(out, subst(lemma.Args[0], cp))
			return
		}
		for _, c := range cands[i] {
			m[lemma.Vars[i].Op] = c
			rec(i+1, m)
		}
	}
	rec(0, map[string]*Term{})
	return out
}


// collectGroundSelects records, per array term, the index terms of the ground select applications
// in t (seeing through named abbreviations).
func collectGroundSelects(w *World, t *Term, out map[string][]*Term, seen map[string]bool) {
	if t.Op == "forall" || t.Op == "exists" {
		return
	}
	if len(t.Args) == 0 {
		if w != nil {
			if d, ok := w.defs[t.Op]; ok && !seen["def:"+t.Op] && d.T != nil {
				seen["def:"+t.Op] = true
				collectGroundSelects(w, d.T, out, seen)
			}
		}
		return
	}
	k := t.String()
	if seen[k] {
		return
	}
	seen[k] = true
	if t.Op == "select" && len(t.Args) == 2 {
		ak := t.Args[0].String()
		if len(out[ak]) < 12 {
			out[ak] = append(out[ak], t.Args[1])
		}
	}
	for _, a := range t.Args {
		collectGroundSelects(w, a, out, seen)
	}
}

// stripOffset solves idx == off + r for r when off occurs syntactically as a summand of idx.
func stripOffset(w *World, idx *Term, off string) (*Term, bool) {
	if idx.String() == off {
		return IntLit(0, idx.Sort), true
	}
	if idx.Op == "+" && len(idx.Args) == 2 {
		if idx.Args[0].String() == off {
			return idx.Args[1], true
		}
		if idx.Args[1].String() == off {
			return idx.Args[0], true
		}
		if r, ok := stripOffset(w, idx.Args[0], off); ok {
			return w.Add(r, idx.Args[1]), true
		}
		if r, ok := stripOffset(w, idx.Args[1], off); ok {
			return w.Add(idx.Args[0], r), true
		}
	}
	return nil, false
}

// triggerInstances: for a one-variable forall, the values of the variable that make one of the
// select applications in its body coincide with a ground select application on the same array.
func triggerInstances(w *World, a *Term, ground map[string][]*Term, limit int) []*Term {
	v := a.Vars[0].Op
	var res []*Term
	have := map[string]bool{}
	var walk func(t *Term)
	walk = func(t *Term) {
		if len(res) >= limit || t.Op == "forall" || t.Op == "exists" {
			return
		}
		if t.Op == "select" && len(t.Args) == 2 && !strings.Contains(t.Args[0].String(), v) {
			idx := t.Args[1]
			var off *Term
			match := false
			if len(idx.Args) == 0 && idx.Op == v {
				match = true
			} else if idx.Op == "+" && len(idx.Args) == 2 {
				x, y := idx.Args[0], idx.Args[1]
				if len(y.Args) == 0 && y.Op == v && !strings.Contains(x.String(), v) {
					match, off = true, x
				} else if len(x.Args) == 0 && x.Op == v && !strings.Contains(y.String(), v) {
					match, off = true, y
				}
			}
			if match {
				for _, g := range ground[t.Args[0].String()] {
					if g.Sort != a.Vars[0].Sort || len(res) >= limit {
						continue
					}
					c := g
					if off != nil {
						if r, ok := stripOffset(w, g, off.String()); ok {
							c = r
						} else {
							c = w.Sub(g, off)
						}
					}
					if !have[c.String()] {
						have[c.String()] = true
						res = append(res, c)
					}
				}
			}
		}
		for _, c := range t.Args {
			walk(c)
		}
	}
	walk(a.Args[0])
	return res
}
