package main

// Assumed contracts of external (standard library / third party) functions.
// Every entry here is an ASSUMPTION and is listed in the evidence.

import (
	"go/types"
	"strings"

	"golang.org/x/tools/go/ssa"
)

type extFn func(x *Exec, fr *Frame, st *State, fn *ssa.Function, args []*SV, site ssa.Instruction, k callK)

var externalAssumptions = map[string]string{
	"slices.Clone":            "returns a fresh slice (new backing array) with equal length and element-wise equal contents",
	"slices.Clip":             "returns s[:len(s):len(s)] (same backing array, capacity reduced to the length)",
	"log.Panicf":              "does not return (panics)",
	"log.Panic":               "does not return (panics)",
	"log.Fatal":               "does not return (exits)",
	"os.Exit":                 "does not return",
	"fmt.Sprintf":             "pure; returns some string; does not modify program state (Stringer methods it calls are pure)",
	"fmt.Sprint":              "pure; returns some string",
	"fmt.Errorf":              "pure; returns a non-nil error",
	"fmt.Print":               "writes to stdout only; no program state modified",
	"fmt.Println":             "writes to stdout only; no program state modified",
	"fmt.Printf":              "writes to stdout only; no program state modified",
	"errors.New":              "returns a fresh non-nil error",
	"strconv.Itoa":            "pure; returns some string",
	"strconv.Atoi":            "pure; returns (some int, some error)",
	"strconv.ParseFloat":      "pure; returns (some float64, some error)",
	"strconv.FormatBool":      "pure; returns some string",
	"strings.ReplaceAll":      "pure; returns some string",
	"strings.Contains":        "pure; for a constant set and a one-byte needle: membership of the byte in the set",
	"strings.Count":           "pure; returns a non-negative int",
	"strings.Index":           "pure; returns -1 or an index i with 0 <= i <= len(s)-len(sep)",
	"strings.LastIndex":       "pure; returns -1 or an index i with 0 <= i <= len(s)-len(sep)",
	"strings.Repeat":          "panics on negative count; otherwise returns a string of length len(s)*count",
	"strings.NewReader":       "returns a fresh reader positioned at 0 over s",
	"slices.Contains":         "pure; returns some bool",
}

func shortKey(key string) string {
	// "slices.Clone[[]T,T]" -> "slices.Clone"
	if i := strings.Index(key, "["); i >= 0 {
		key = key[:i]
	}
	return key
}

func (e *Engine) pureExternal(key string) bool {
	k := shortKey(key)
	switch {
	case strings.HasPrefix(k, "fmt."), strings.HasPrefix(k, "strconv."), strings.HasPrefix(k, "strings."),
		strings.HasPrefix(k, "errors."), strings.HasPrefix(k, "unicode"), strings.HasPrefix(k, "math."),
		strings.HasPrefix(k, "slices.Contains"):
		return true
	}
	return false
}

func (e *Engine) externalAllocates(key string) bool {
	return strings.HasPrefix(shortKey(key), "slices.Clone")
}

func (e *Engine) externalComps(key string, fn *ssa.Function) []string {
	if strings.HasPrefix(shortKey(key), "slices.Clone") {
		if sl, ok := fn.Signature.Results().At(0).Type().Underlying().(*types.Slice); ok {
			return []string{"E!" + typeKey(sl.Elem())}
		}
	}
	return nil
}

func (e *Engine) external(key string, fn *ssa.Function) extFn {
	k := shortKey(key)
	switch k {
	case "slices.Clone":
		return extSlicesClone
	case "slices.Clip":
		return extSlicesClip
	case "log.Panicf", "log.Panic", "log.Panicln", "log.Fatal", "log.Fatalf", "log.Fatalln":
		return extNoReturnPanic
	case "os.Exit":
		return extExit
	case "errors.New", "fmt.Errorf":
		return extNewError
	case "strings.NewReader":
		return extNewReader
	case "strings.Contains":
		return extStringsContains
	case "strings.Repeat":
		return extStringsRepeat
	case "strings.Index", "strings.LastIndex":
		return extStringsIndex
	case "strings.Count":
		return extStringsCount
	}
	return nil
}

func extSlicesClone(x *Exec, fr *Frame, st *State, fn *ssa.Function, args []*SV, site ssa.Instruction, k callK) {
	w := x.w
	s := x.svTerm(args[0])
	et := fn.Signature.Params().At(0).Type().Underlying().(*types.Slice).Elem()
	arr, off, ln := w.slice.Get(s, 0), w.slice.Get(s, 1), w.slice.Get(s, 2)
	if fr.pure {
		unsupportedf("slices.Clone in pure evaluation")
	}
	isNil := Eq(arr, IntLit(0, SInt))
	// nil stays nil
	st1, fr1 := st.clone(), fr.clone()
	st1.assume(isNil)
	if x.feasible(st1) {
		k(st1, fr1, TV(w.Zero(fn.Signature.Results().At(0).Type())))
	}
	st.assume(Not(isNil))
	if !x.feasible(st) {
		return
	}
	r := x.newRef(st)
	n, e := x.elemComp(st.heap, et)
	row := Select(e, arr)
	nr := w.Fresh("clone.row", row.Sort)
	i := Atom("i", w.IS)
	st.assume(Forall([]*Term{i}, Imp(And(w.Le(w.Int(0), i), w.Lt(i, ln)),
		Eq(Select(nr, i), Select(row, w.Add(off, i)))), []*Term{Select(nr, i)}))
	x.setComp(st.heap, n, Store(e, r, nr))
	cp := w.Fresh("clone.cap", w.IS)
	st.assume(w.Le(ln, cp))
	if w.Mode == "bv" {
		st.assume(w.Le(cp, w.Int(1<<41)))
	}
	k(st, fr, TV(w.slice.Make(r, w.Int(0), ln, cp)))
}

func extNoReturnPanic(x *Exec, fr *Frame, st *State, fn *ssa.Function, args []*SV, site ssa.Instruction, k callK) {
	if fr.pure {
		st.dead = true
		return
	}
	label := fn.Pkg.Pkg.Name() + "." + fn.Name()
	if site != nil {
		label = x.srcLabel(site.Pos(), "call")
	}
	x.oblige(st, "nopanic", label, x.implicitTags(fr, "panic"), TFalse, site.Pos())
	st.dead = true
}

func extExit(x *Exec, fr *Frame, st *State, fn *ssa.Function, args []*SV, site ssa.Instruction, k callK) {
	st.dead = true
}

func extNewError(x *Exec, fr *Frame, st *State, fn *ssa.Function, args []*SV, site ssa.Instruction, k callK) {
	w := x.w
	v := w.Fresh("err", SIfc)
	st.assume(Not(Eq(w.iface.Get(v, 0), IntLit(0, SInt))))
	k(st, fr, TV(v))
}

// strings.Contains(set, string(c)) for a constant set: membership.
func extStringsContains(x *Exec, fr *Frame, st *State, fn *ssa.Function, args []*SV, site ssa.Instruction, k callK) {
	w := x.w
	set, needle := x.svTerm(args[0]), x.svTerm(args[1])
	var lit string
	found := false
	for s, t := range w.strLits {
		if t.String() == set.String() {
			lit, found = s, true
		}
	}
	if found && (needle.Op == "srune" || needle.Op == "sbyte") && len(needle.Args) == 1 {
		c := needle.Args[0]
		var alts []*Term
		for i := 0; i < len(lit); i++ {
			if lit[i] < 0x80 {
				alts = append(alts, Eq(c, IntLit(int64(lit[i]), c.Sort)))
			}
		}
		k(st, fr, TV(Or(alts...)))
		return
	}
	k(st, fr, TV(w.Fresh("contains", SBool)))
}

func extStringsRepeat(x *Exec, fr *Frame, st *State, fn *ssa.Function, args []*SV, site ssa.Instruction, k callK) {
	w := x.w
	s, n := x.svTerm(args[0]), x.svTerm(args[1])
	if !fr.pure {
		g := w.Le(w.Int(0), n)
		x.oblige(st, "nopanic", "strings.Repeat negative count: "+x.srcLabel(site.Pos(), "call"), x.implicitTags(fr, "panic"), g, site.Pos())
		st.assume(g)
	}
	r := w.Fresh("repeat", SStr)
	st.assume(Eq(w.SLen(r), w.Mul(w.SLen(s), n)))
	k(st, fr, TV(r))
}

func extStringsIndex(x *Exec, fr *Frame, st *State, fn *ssa.Function, args []*SV, site ssa.Instruction, k callK) {
	w := x.w
	s, sep := x.svTerm(args[0]), x.svTerm(args[1])
	r := w.Fresh("stridx", w.IS)
	st.assume(Or(Eq(r, w.Int(-1)), And(w.Le(w.Int(0), r), w.Le(w.Add(r, w.SLen(sep)), w.SLen(s)))))
	k(st, fr, TV(r))
}

func extStringsCount(x *Exec, fr *Frame, st *State, fn *ssa.Function, args []*SV, site ssa.Instruction, k callK) {
	w := x.w
	r := w.Fresh("strcount", w.IS)
	st.assume(w.Le(w.Int(0), r))
	k(st, fr, TV(r))
}

func extSlicesClip(x *Exec, fr *Frame, st *State, fn *ssa.Function, args []*SV, site ssa.Instruction, k callK) {
	w := x.w
	s := x.svTerm(args[0])
	k(st, fr, TV(w.slice.Make(w.slice.Get(s, 0), w.slice.Get(s, 1), w.slice.Get(s, 2), w.slice.Get(s, 2))))
}

func extNewReader(x *Exec, fr *Frame, st *State, fn *ssa.Function, args []*SV, site ssa.Instruction, k callK) {
	if fr.pure {
		unsupportedf("strings.NewReader in pure evaluation")
	}
	r := x.newRef(st)
	k(st, fr, TV(r))
}
