package main

// Assumed contracts of external (standard library / third party) functions.
// Every entry here is an ASSUMPTION and is listed in the evidence.

import (
	"go/types"
	"strings"

	"golang.org/x/tools/go/ssa"
)

type extFn func(x *Exec, fr *Frame, st *State, fn *ssa.Function, args []*SV, site ssa.Instruction, k callK)

var externalAssumptions = map[string]string{
	"slices.Clone":            "returns a fresh slice (new backing array) with equal length and element-wise equal contents",
	"slices.Clip":             "returns s[:len(s):len(s)] (same backing array, capacity reduced to the length)",
	"log.Panicf":              "does not return (panics)",
	"log.Panic":               "does not return (panics)",
	"log.Fatal":               "does not return (exits)",
	"os.Exit":                 "does not return",
	"fmt.Sprintf":             "pure; returns some string; does not modify program state (Stringer methods it calls are pure)",
	"fmt.Sprint":              "pure; returns some string",
	"fmt.Errorf":              "pure; returns a non-nil error",
	"fmt.Print":               "writes to stdout only; no program state modified",
	"fmt.Println":             "writes to stdout only; no program state modified",
	"fmt.Printf":              "writes to stdout only; no program state modified",
	"errors.New":              "returns a fresh non-nil error",
	"reflect.DeepEqual":       "pure; never panics; returns some bool",
	"strconv.Itoa":            "pure; returns some string",
	"strconv.Atoi":            "pure and deterministic: (value, error) are functions of the argument string only",
	"strconv.ParseFloat":      "pure and deterministic: (value, error) are functions of the argument string (bitSize 64) only",
	"strconv.FormatBool":      "pure; returns some string",
	"strings.ReplaceAll":      "pure; for constant old/new with 1 <= len(new) <= len(old): len(result) <= len(s); if additionally len(s) >= 2 and s[0] != old[0] then len(result) >= 2 and result[0] == s[0] (the first byte cannot start a match, the non-empty rest maps to a non-empty string)",
	"strings.Contains":        "pure; for a constant set and a one-byte needle: membership of the byte in the set",
	"strings.Count":           "pure; returns a non-negative int",
	"strings.Index":           "pure; returns -1 or an index i with 0 <= i <= len(s)-len(sep)",
	"strings.LastIndex":       "pure; returns -1 or an index i with 0 <= i <= len(s)-len(sep)",
	"strings.Repeat":          "panics on negative count; otherwise returns a string of length len(s)*count",
	"strings.NewReader":       "returns a fresh reader positioned at 0 over s",
	"strings.(*Reader).ReadRune": "at position i < len(s): returns (ch, size, nil) with 1 <= size <= 4, i+size <= len(s), advances i by size; ch < 0x80 iff s[i] < 0x80, and then size == 1 and ch == s[i]; at i >= len(s): returns (0, 0, non-nil error), reader unchanged",
	"slices.Contains":         "pure; returns some bool",
	"github.com/kamstrup/intmap.New":          "returns a fresh empty map",
	"github.com/kamstrup/intmap.(*Map).Get":   "finite-map semantics: (value stored under key, true) or (zero, false); no state change",
	"github.com/kamstrup/intmap.(*Map).Put":   "finite-map semantics: afterwards key maps to val, other keys unchanged",
	"github.com/kamstrup/intmap.(*Map).Del":   "finite-map semantics: afterwards key is absent, other keys unchanged",
	"github.com/kamstrup/intmap.(*Map).Clear": "finite-map semantics: afterwards every key is absent",
	"github.com/kamstrup/intmap.(*Map).Len":   "returns a non-negative int; no state change",
	"github.com/kamstrup/intmap.(*Map).ForEach": "calls the callback some number of times: every intmap table and everything else on the heap may have changed afterwards (havoc)",
	"container/list":                          "list.New/Front/PushFront/Remove: results unconstrained, no program state other than the list modified (the list contents are not modelled)",
	"bufio":                                   "bufio.NewReader returns a newly allocated reader; (*Reader).ReadString: results unconstrained (it may read ahead into the reader's own buffer); no program state modified",
}

func shortKey(key string) string {
	// "slices.Clone[[]T,T]" -> "slices.Clone"
	if i := strings.Index(key, "["); i >= 0 {
		key = key[:i]
	}
	return key
}

func (e *Engine) pureExternal(key string) bool {
	k := shortKey(key)
	switch {
	case k == "reflect.DeepEqual":
		return true
	case strings.HasPrefix(k, "fmt."), strings.HasPrefix(k, "strconv."), strings.HasPrefix(k, "strings."),
		strings.HasPrefix(k, "errors."), strings.HasPrefix(k, "unicode"), strings.HasPrefix(k, "math."),
		strings.HasPrefix(k, "slices.Contains"), strings.HasPrefix(k, "container/list."), strings.HasPrefix(k, "bufio."):
		return true
	}
	return false
}

func (e *Engine) externalAllocates(key string) bool {
	return strings.HasPrefix(shortKey(key), "slices.Clone") || shortKey(key) == "bufio.NewReader" || shortKey(key) == "container/list.New" || strings.HasPrefix(key, "github.com/kamstrup/intmap.")
}

func (e *Engine) externalComps(key string, fn *ssa.Function) []string {
	if strings.HasPrefix(shortKey(key), "slices.Clone") {
		if sl, ok := fn.Signature.Results().At(0).Type().Underlying().(*types.Slice); ok {
			return []string{"E!" + typeKey(sl.Elem())}
		}
	}
	if ik := intmapKey(key); ik != "" && ik != "Get" && ik != "Len" {
		return []string{"IMD", "IMV"}
	}
	return nil
}

func intmapKey(key string) string {
	if !strings.HasPrefix(key, "github.com/kamstrup/intmap.") {
		return ""
	}
	if strings.HasPrefix(key, "github.com/kamstrup/intmap.New") {
		return "New"
	}
	if i := strings.Index(key, ")."); i >= 0 {
		k := key[i+2:]
		if j := strings.Index(k, "["); j >= 0 {
			k = k[:j]
		}
		return k
	}
	return ""
}

func (e *Engine) external(key string, fn *ssa.Function) extFn {
	switch intmapKey(key) {
	case "New":
		return extIntmapNew
	case "Get":
		return extIntmapGet
	case "Put":
		return extIntmapPut
	case "Del":
		return extIntmapDel
	case "Clear":
		return extIntmapClear
	case "Len":
		return extIntmapLen
	case "ForEach":
		return extIntmapForEach
	}
	k := shortKey(key)
	switch k {
	case "bufio.NewReader", "container/list.New":
		return extNewObject
	case "slices.Clone":
		return extSlicesClone
	case "slices.Clip":
		return extSlicesClip
	case "log.Panicf", "log.Panic", "log.Panicln", "log.Fatal", "log.Fatalf", "log.Fatalln":
		return extNoReturnPanic
	case "os.Exit":
		return extExit
	case "errors.New", "fmt.Errorf":
		return extNewError
	case "strings.NewReader":
		return extNewReader
	case "strings.(*Reader).ReadRune":
		return extReadRune
	case "strings.Contains":
		return extStringsContains
	case "strings.Repeat":
		return extStringsRepeat
	case "strings.ReplaceAll":
		return extStringsReplaceAll
	case "strconv.Atoi":
		return extAtoi
	case "strconv.ParseFloat":
		return extParseFloat
	case "strings.Index", "strings.LastIndex":
		return extStringsIndex
	case "strings.Count":
		return extStringsCount
	}
	return nil
}

func extSlicesClone(x *Exec, fr *Frame, st *State, fn *ssa.Function, args []*SV, site ssa.Instruction, k callK) {
	w := x.w
	s := x.svTerm(args[0])
	et := fn.Signature.Params().At(0).Type().Underlying().(*types.Slice).Elem()
	arr, off, ln := w.slice.Get(s, 0), w.slice.Get(s, 1), w.slice.Get(s, 2)
	if fr.pure {
		unsupportedf("slices.Clone in pure evaluation")
	}
	isNil := Eq(arr, IntLit(0, SInt))
	// nil stays nil
	st1, fr1 := st.clone(), fr.clone()
	st1.assume(isNil)
	if x.feasible(st1) {
		k(st1, fr1, TV(w.Zero(fn.Signature.Results().At(0).Type())))
	}
	st.assume(Not(isNil))
	if !x.feasible(st) {
		return
	}
	r := x.newRef(st)
	n, e := x.elemComp(st.heap, et)
	row := Select(e, arr)
	nr := w.Fresh("clone.row", row.Sort)
	i := Atom("i", w.IS)
	st.assume(Forall([]*Term{i}, Imp(And(w.Le(w.Int(0), i), w.Lt(i, ln)),
		Eq(Select(nr, i), Select(row, w.Add(off, i)))), []*Term{Select(nr, i)}))
	x.setComp(st.heap, n, Store(e, r, nr))
	cp := w.Fresh("clone.cap", w.IS)
	st.assume(w.Le(ln, cp))
	if w.Mode == "bv" {
		st.assume(w.Le(cp, w.Int(1<<41)))
	}
	k(st, fr, TV(w.slice.Make(r, w.Int(0), ln, cp)))
}

func extNoReturnPanic(x *Exec, fr *Frame, st *State, fn *ssa.Function, args []*SV, site ssa.Instruction, k callK) {
	if fr.pure {
		st.dead = true
		return
	}
	label := fn.Pkg.Pkg.Name() + "." + fn.Name()
	if site != nil {
		label = x.srcLabel(site.Pos(), "call")
	}
	x.oblige(st, "nopanic", label, x.implicitTags(fr, "panic"), TFalse, site.Pos())
	st.dead = true
}

func extExit(x *Exec, fr *Frame, st *State, fn *ssa.Function, args []*SV, site ssa.Instruction, k callK) {
	st.dead = true
}

func extNewError(x *Exec, fr *Frame, st *State, fn *ssa.Function, args []*SV, site ssa.Instruction, k callK) {
	w := x.w
	v := w.Fresh("err", SIfc)
	st.assume(Not(Eq(w.iface.Get(v, 0), IntLit(0, SInt))))
	k(st, fr, TV(v))
}

// strings.Contains(set, string(c)) for a constant set: membership.
func extStringsContains(x *Exec, fr *Frame, st *State, fn *ssa.Function, args []*SV, site ssa.Instruction, k callK) {
	w := x.w
	set, needle := x.svTerm(args[0]), x.svTerm(args[1])
	var lit string
	found := false
	for s, t := range w.strLits {
		if t.String() == set.String() {
			lit, found = s, true
		}
	}
	if found && (needle.Op == "srune" || needle.Op == "sbyte") && len(needle.Args) == 1 {
		c := needle.Args[0]
		var alts []*Term
		for i := 0; i < len(lit); i++ {
			if lit[i] < 0x80 {
				alts = append(alts, Eq(c, IntLit(int64(lit[i]), c.Sort)))
			}
		}
		k(st, fr, TV(Or(alts...)))
		return
	}
	k(st, fr, TV(w.Fresh("contains", SBool)))
}

func extStringsRepeat(x *Exec, fr *Frame, st *State, fn *ssa.Function, args []*SV, site ssa.Instruction, k callK) {
	w := x.w
	s, n := x.svTerm(args[0]), x.svTerm(args[1])
	if !fr.pure {
		g := w.Le(w.Int(0), n)
		x.oblige(st, "nopanic", "strings.Repeat negative count: "+x.srcLabel(site.Pos(), "call"), x.implicitTags(fr, "panic"), g, site.Pos())
		st.assume(g)
	}
	r := w.Fresh("repeat", SStr)
	st.assume(Eq(w.SLen(r), w.Mul(w.SLen(s), n)))
	k(st, fr, TV(r))
}

func extStringsIndex(x *Exec, fr *Frame, st *State, fn *ssa.Function, args []*SV, site ssa.Instruction, k callK) {
	w := x.w
	s, sep := x.svTerm(args[0]), x.svTerm(args[1])
	r := w.Fresh("stridx", w.IS)
	st.assume(Or(Eq(r, w.Int(-1)), And(w.Le(w.Int(0), r), w.Le(w.Add(r, w.SLen(sep)), w.SLen(s)))))
	k(st, fr, TV(r))
}

func extStringsCount(x *Exec, fr *Frame, st *State, fn *ssa.Function, args []*SV, site ssa.Instruction, k callK) {
	w := x.w
	r := w.Fresh("strcount", w.IS)
	st.assume(w.Le(w.Int(0), r))
	k(st, fr, TV(r))
}

func extSlicesClip(x *Exec, fr *Frame, st *State, fn *ssa.Function, args []*SV, site ssa.Instruction, k callK) {
	w := x.w
	s := x.svTerm(args[0])
	k(st, fr, TV(w.slice.Make(w.slice.Get(s, 0), w.slice.Get(s, 1), w.slice.Get(s, 2), w.slice.Get(s, 2))))
}

func extNewReader(x *Exec, fr *Frame, st *State, fn *ssa.Function, args []*SV, site ssa.Instruction, k callK) {
	if fr.pure {
		unsupportedf("strings.NewReader in pure evaluation")
	}
	w := x.w
	rt := fn.Signature.Results().At(0).Type().(*types.Pointer).Elem()
	r := x.newRef(st)
	p := &Ptr{Ref: r, Base: rt}
	strct := rt.Underlying().(*types.Struct)
	rec := w.RecordOfType(rt)
	v := w.Zero(rt)
	for i := 0; i < strct.NumFields(); i++ {
		switch strct.Field(i).Name() {
		case "s":
			v = rec.Set(v, i, x.svTerm(args[0]))
		case "prevRune":
			v = rec.Set(v, i, IntLit(-1, rec.Fields[i].Sort))
		}
	}
	x.Store(fr, st, p, v)
	k(st, fr, TV(r))
}

func extReadRune(x *Exec, fr *Frame, st *State, fn *ssa.Function, args []*SV, site ssa.Instruction, k callK) {
	if fr.pure {
		unsupportedf("ReadRune in pure evaluation")
	}
	w := x.w
	p := args[0].P
	if p == nil {
		p = x.ptrFromTerm(args[0].T, fn.Signature.Recv().Type())
	}
	rt := fn.Signature.Recv().Type().(*types.Pointer).Elem()
	strct := rt.Underlying().(*types.Struct)
	rec := w.RecordOfType(rt)
	cur := x.Load(fr, st, p)
	si, ii := -1, -1
	for i := 0; i < strct.NumFields(); i++ {
		switch strct.Field(i).Name() {
		case "s":
			si = i
		case "i":
			ii = i
		}
	}
	s, pos := rec.Get(cur, si), rec.Get(cur, ii)
	posIS := pos
	if pos.Sort != w.IS {
		posIS = x.convInt(pos, strct.Field(ii).Type(), types.Typ[types.Int])
	}
	res := fn.Signature.Results()
	chS := w.SortOf(res.At(0).Type())
	atEnd := w.Le(w.SLen(s), posIS)
	// end of input: (0, 0, err)
	st1, fr1 := st.clone(), fr.clone()
	st1.assume(atEnd)
	if x.feasible(st1) {
		e := w.Fresh("eof", SIfc)
		st1.assume(Not(Eq(w.iface.Get(e, 0), IntLit(0, SInt))))
		k(st1, fr1, &SV{Tuple: []*SV{TV(IntLit(0, chS)), TV(w.Int(0)), TV(e)}})
	}
	st.assume(Not(atEnd))
	if !x.feasible(st) {
		return
	}
	st.assume(w.Le(w.Int(0), posIS))
	ch := w.Fresh("rune", chS)
	size := w.Fresh("size", w.IS)
	b := App("sat", w.byteSort(), s, posIS)
	b32 := b
	if chS != b.Sort {
		b32 = App("(_ zero_extend 24)", chS, b)
	}
	lim := IntLit(0x80, chS)
	lt := func(a, c *Term) *Term {
		if a.Sort == SInt {
			return App("<", SBool, a, c)
		}
		return App("bvult", SBool, a, c)
	}
	st.assume(And(w.Le(w.Int(1), size), w.Le(size, w.Int(4)), w.Le(w.Add(posIS, size), w.SLen(s)),
		Eq(lt(ch, lim), lt(b32, lim)), Imp(lt(b32, lim), And(Eq(size, w.Int(1)), Eq(ch, b32))),
		w.Le(IntLit(0, chS), ch)))
	if w.Mode == "int" {
		st.assume(And(App("<=", SBool, IntLit(0, SInt), b), App("<=", SBool, b, IntLit(255, SInt)), App("<=", SBool, ch, IntLit(0x10FFFF, SInt))))
	}
	newPos := w.Add(posIS, size)
	np := newPos
	if pos.Sort != w.IS {
		np = x.convInt(newPos, types.Typ[types.Int], strct.Field(ii).Type())
	}
	x.Store(fr, st, p.with(PathStep{Field: ii, T: strct.Field(ii).Type()}), np)
	k(st, fr, &SV{Tuple: []*SV{TV(ch), TV(size), TV(w.Zero(res.At(2).Type()))}})
}

func extStringsReplaceAll(x *Exec, fr *Frame, st *State, fn *ssa.Function, args []*SV, site ssa.Instruction, k callK) {
	w := x.w
	s, old, nw := x.svTerm(args[0]), x.svTerm(args[1]), x.svTerm(args[2])
	r := w.Fresh("replaced", SStr)
	var oldLit, newLit string
	okO, okN := false, false
	for lit, t := range w.strLits {
		if t.String() == old.String() {
			oldLit, okO = lit, true
		}
		if t.String() == nw.String() {
			newLit, okN = lit, true
		}
	}
	if okO && okN && len(newLit) >= 1 && len(newLit) <= len(oldLit) {
		st.assume(w.Le(w.SLen(r), w.SLen(s)))
		first := App("sat", w.byteSort(), s, w.Int(0))
		st.assume(Imp(And(w.Le(w.Int(2), w.SLen(s)), Not(Eq(first, IntLit(int64(oldLit[0]), w.byteSort())))),
			And(w.Le(w.Int(2), w.SLen(r)), Eq(App("sat", w.byteSort(), r, w.Int(0)), first))))
	}
	k(st, fr, TV(r))
}

func extAtoi(x *Exec, fr *Frame, st *State, fn *ssa.Function, args []*SV, site ssa.Instruction, k callK) {
	w := x.w
	w.declFun("atoi_val", "(Str) "+string(w.IS))
	w.declFun("atoi_err", "(Str) Iface")
	s := x.svTerm(args[0])
	k(st, fr, &SV{Tuple: []*SV{TV(App("atoi_val", w.IS, s)), TV(App("atoi_err", SIfc, s))}})
}

func extParseFloat(x *Exec, fr *Frame, st *State, fn *ssa.Function, args []*SV, site ssa.Instruction, k callK) {
	w := x.w
	w.declFun("pfloat_val", "(Str) "+string(SF64))
	w.declFun("pfloat_err", "(Str) Iface")
	s := x.svTerm(args[0])
	k(st, fr, &SV{Tuple: []*SV{TV(App("pfloat_val", SF64, s)), TV(App("pfloat_err", SIfc, s))}})
}


// ---- github.com/kamstrup/intmap: a Map object is modelled as a finite map (domain IMD, values IMV)
// from integer keys to values of the map's value sort, per map reference.

func (x *Exec) intmapComps(h *Heap, vt types.Type) (*Term, *Term) {
	w := x.w
	d := x.compOf(h, "IMD", ArraySort(SInt, ArraySort(w.IS, SBool)))
	v := x.compOf(h, "IMV", ArraySort(SInt, ArraySort(w.IS, w.SortOf(vt))))
	return d, v
}

func intmapValType(fn *ssa.Function) types.Type {
	// Get returns (V, bool); Put takes (K, V)
	if r := fn.Signature.Results(); r.Len() == 2 {
		return r.At(0).Type()
	}
	if p := fn.Signature.Params(); p.Len() == 2 {
		return p.At(1).Type()
	}
	return nil
}

func (x *Exec) intmapVT(fn *ssa.Function) types.Type {
	if r := fn.Signature.Recv(); r != nil {
		if pt, ok := r.Type().(*types.Pointer); ok {
			if n, ok := pt.Elem().(*types.Named); ok && n.TypeArgs().Len() == 2 {
				x.imVal = n.TypeArgs().At(1)
			}
		}
	}
	if t := intmapValType(fn); t != nil && x.imVal == nil {
		x.imVal = t
	}
	if x.imVal == nil {
		unsupportedf("intmap value type unknown at %s", fn)
	}
	return x.imVal
}

func extIntmapNew(x *Exec, fr *Frame, st *State, fn *ssa.Function, args []*SV, site ssa.Instruction, k callK) {
	// result type *Map[K,V]: find V from the type arguments
	if pt, ok := fn.Signature.Results().At(0).Type().(*types.Pointer); ok {
		if n, ok := pt.Elem().(*types.Named); ok && n.TypeArgs().Len() == 2 {
			x.imVal = n.TypeArgs().At(1)
		}
	}
	r := x.newRef(st)
	d, _ := x.intmapComps(st.heap, x.intmapVT(fn))
	x.setComp(st.heap, "IMD", Store(d, r, ConstArray(ArraySort(x.w.IS, SBool), TFalse)))
	x.writes["IMD"] = true
	k(st, fr, TV(r))
}

func extIntmapGet(x *Exec, fr *Frame, st *State, fn *ssa.Function, args []*SV, site ssa.Instruction, k callK) {
	vt := x.intmapVT(fn)
	d, v := x.intmapComps(st.heap, vt)
	m, key := x.svTerm(args[0]), x.svTerm(args[1])
	has := Select(Select(d, m), key)
	val := Ite(has, Select(Select(v, m), key), x.w.Zero(vt))
	k(st, fr, &SV{Tuple: []*SV{TV(val), TV(has)}})
}

func extIntmapPut(x *Exec, fr *Frame, st *State, fn *ssa.Function, args []*SV, site ssa.Instruction, k callK) {
	vt := x.intmapVT(fn)
	d, v := x.intmapComps(st.heap, vt)
	m, key, val := x.svTerm(args[0]), x.svTerm(args[1]), x.svTerm(args[2])
	x.setComp(st.heap, "IMD", Store(d, m, Store(Select(d, m), key, TTrue)))
	x.setComp(st.heap, "IMV", Store(v, m, Store(Select(v, m), key, val)))
	x.writes["IMD"], x.writes["IMV"] = true, true
	k(st, fr, &SV{})
}

func extIntmapDel(x *Exec, fr *Frame, st *State, fn *ssa.Function, args []*SV, site ssa.Instruction, k callK) {
	d, _ := x.intmapComps(st.heap, x.intmapVT(fn))
	m, key := x.svTerm(args[0]), x.svTerm(args[1])
	x.setComp(st.heap, "IMD", Store(d, m, Store(Select(d, m), key, TFalse)))
	x.writes["IMD"] = true
	k(st, fr, x.freshOfType(st, "im.del", fn.Signature.Results()))
}

func extIntmapClear(x *Exec, fr *Frame, st *State, fn *ssa.Function, args []*SV, site ssa.Instruction, k callK) {
	d, _ := x.intmapComps(st.heap, x.intmapVT(fn))
	m := x.svTerm(args[0])
	x.setComp(st.heap, "IMD", Store(d, m, ConstArray(ArraySort(x.w.IS, SBool), TFalse)))
	x.writes["IMD"] = true
	k(st, fr, &SV{})
}

func extIntmapLen(x *Exec, fr *Frame, st *State, fn *ssa.Function, args []*SV, site ssa.Instruction, k callK) {
	n := x.w.Fresh("im.len", x.w.IS)
	st.assume(x.w.Le(x.w.Int(0), n))
	k(st, fr, TV(n))
}


// extNewObject: constructors of opaque library objects - the result is a newly allocated reference.
func extNewObject(x *Exec, fr *Frame, st *State, fn *ssa.Function, args []*SV, site ssa.Instruction, k callK) {
	if fr.pure {
		unsupportedf("%s in pure evaluation", fn)
	}
	k(st, fr, TV(x.newRef(st)))
}


// ForEach runs an arbitrary callback an arbitrary number of times: everything may change.
func extIntmapForEach(x *Exec, fr *Frame, st *State, fn *ssa.Function, args []*SV, site ssa.Instruction, k callK) {
	if fr.pure {
		unsupportedf("intmap ForEach in pure evaluation")
	}
	x.intmapComps(st.heap, x.intmapVT(fn))
	x.havocAllHeap(st)
	k(st, fr, &SV{})
}
