package main

// SMT term layer: a small structured term representation with light
// simplification, printed as SMT-LIB2.

import (
	"fmt"
	"math/big"
	"sort"
	"strings"
)

type Sort string

const (
	SBool Sort = "Bool"
	SInt  Sort = "Int"
	SBV64 Sort = "(_ BitVec 64)"
	SBV32 Sort = "(_ BitVec 32)"
	SBV8  Sort = "(_ BitVec 8)"
	SBV16 Sort = "(_ BitVec 16)"
	SF64  Sort = "(_ FloatingPoint 11 53)"
	SStr  Sort = "Str"
	SSlc  Sort = "Slice"
	SIfc  Sort = "Iface"
)

func ArraySort(idx, elem Sort) Sort { return Sort("(Array " + string(idx) + " " + string(elem) + ")") }

func (s Sort) IsArray() bool { return strings.HasPrefix(string(s), "(Array ") }
func (s Sort) IsBV() bool    { return strings.HasPrefix(string(s), "(_ BitVec ") }
func (s Sort) BVWidth() int {
	var w int
	fmt.Sscanf(string(s), "(_ BitVec %d)", &w)
	return w
}

// ArrayParts splits "(Array I E)" into I and E.
func (s Sort) ArrayParts() (Sort, Sort) {
	str := string(s)
	str = strings.TrimSuffix(strings.TrimPrefix(str, "(Array "), ")")
	// split at the top-level space
	depth := 0
	for i, c := range str {
		switch c {
		case '(':
			depth++
		case ')':
			depth--
		case ' ':
			if depth == 0 {
				return Sort(str[:i]), Sort(str[i+1:])
			}
		}
	}
	panic("bad array sort " + string(s))
}

type Term struct {
	Op   string // operator or atom text
	Args []*Term
	Sort Sort
	Lemma bool     // quantified axiom installed from an `auto` lemma
	Def  *Term     // named abbreviation: the term it stands for (for simplification only)
	Vars []*Term   // quantifiers: bound variables
	Pats [][]*Term // quantifiers: patterns
	str  string
	// for literal ints
	isLit bool
	lit   *big.Int
}

func (t *Term) String() string {
	if t.str != "" {
		return t.str
	}
	if len(t.Args) == 0 {
		t.str = t.Op
		return t.str
	}
	var sb strings.Builder
	sb.WriteByte('(')
	sb.WriteString(t.Op)
	for _, a := range t.Args {
		sb.WriteByte(' ')
		sb.WriteString(a.String())
	}
	sb.WriteByte(')')
	t.str = sb.String()
	return t.str
}

func Atom(name string, s Sort) *Term { return &Term{Op: name, Sort: s} }

func App(op string, s Sort, args ...*Term) *Term {
	for _, a := range args {
		if a == nil {
			panic("nil arg to " + op)
		}
	}
	return &Term{Op: op, Args: args, Sort: s}
}

var (
	TTrue  = Atom("true", SBool)
	TFalse = Atom("false", SBool)
)

func IsTrue(t *Term) bool  { return t.Op == "true" && len(t.Args) == 0 }
func IsFalse(t *Term) bool { return t.Op == "false" && len(t.Args) == 0 }

func BoolLit(b bool) *Term {
	if b {
		return TTrue
	}
	return TFalse
}

// IntLit builds an integer literal of the given sort (Int or a bit-vector).
func IntLitBig(v *big.Int, s Sort) *Term {
	if s == SInt {
		var txt string
		if v.Sign() < 0 {
			txt = "(- " + new(big.Int).Neg(v).String() + ")"
		} else {
			txt = v.String()
		}
		return &Term{Op: txt, Sort: s, isLit: true, lit: new(big.Int).Set(v)}
	}
	if s.IsBV() {
		w := s.BVWidth()
		m := new(big.Int).Lsh(big.NewInt(1), uint(w))
		u := new(big.Int).Mod(v, m)
		if u.Sign() < 0 {
			u.Add(u, m)
		}
		txt := fmt.Sprintf("(_ bv%s %d)", u.String(), w)
		return &Term{Op: txt, Sort: s, isLit: true, lit: u}
	}
	panic("IntLit of sort " + string(s))
}

func IntLit(v int64, s Sort) *Term { return IntLitBig(big.NewInt(v), s) }

func Not(a *Term) *Term {
	if IsTrue(a) {
		return TFalse
	}
	if IsFalse(a) {
		return TTrue
	}
	if a.Op == "not" && len(a.Args) == 1 {
		return a.Args[0]
	}
	return App("not", SBool, a)
}

func And(as ...*Term) *Term {
	var out []*Term
	for _, a := range as {
		if IsTrue(a) {
			continue
		}
		if IsFalse(a) {
			return TFalse
		}
		if a.Op == "and" && len(a.Args) > 0 {
			out = append(out, a.Args...)
		} else {
			out = append(out, a)
		}
	}
	if len(out) == 0 {
		return TTrue
	}
	if len(out) == 1 {
		return out[0]
	}
	return App("and", SBool, out...)
}

func Or(as ...*Term) *Term {
	var out []*Term
	for _, a := range as {
		if IsFalse(a) {
			continue
		}
		if IsTrue(a) {
			return TTrue
		}
		if a.Op == "or" && len(a.Args) > 0 {
			out = append(out, a.Args...)
		} else {
			out = append(out, a)
		}
	}
	if len(out) == 0 {
		return TFalse
	}
	if len(out) == 1 {
		return out[0]
	}
	return App("or", SBool, out...)
}

func Imp(a, b *Term) *Term {
	if IsTrue(a) {
		return b
	}
	if IsFalse(a) || IsTrue(b) {
		return TTrue
	}
	if IsFalse(b) {
		return Not(a)
	}
	if b.Op == "forall" && len(b.Vars) > 0 && len(b.Pats) == 0 {
		// A => forall v. B  ==  forall v. (A => B)   (bound names are globally unique)
		return Forall(b.Vars, Imp(a, b.Args[0]))
	}
	return App("=>", SBool, a, b)
}

func Eq(a, b *Term) *Term {
	if a.Sort != b.Sort {
		panic(fmt.Sprintf("Eq sort mismatch %s:%s vs %s:%s", a, a.Sort, b, b.Sort))
	}
	if a.String() == b.String() {
		return TTrue
	}
	if a.isLit && b.isLit {
		return BoolLit(a.lit.Cmp(b.lit) == 0)
	}
	if a.Sort == SBool {
		if a.Op == "forall" || b.Op == "forall" || a.Op == "exists" || b.Op == "exists" {
			return And(Imp(a, b), Imp(b, a))
		}
		if IsTrue(b) {
			return a
		}
		if IsFalse(b) {
			return Not(a)
		}
		if IsTrue(a) {
			return b
		}
		if IsFalse(a) {
			return Not(b)
		}
	}
	if a.Sort == SF64 {
		// structural equality on floats is NOT Go ==; callers wanting Go == use fp.eq.
		return App("=", SBool, a, b)
	}
	// constructor applications of the same datatype: compare fieldwise when both are mk
	if strings.HasPrefix(a.Op, "mk_") && a.Op == b.Op && len(a.Args) == len(b.Args) && len(a.Args) > 0 {
		var cs []*Term
		for i := range a.Args {
			cs = append(cs, Eq(a.Args[i], b.Args[i]))
		}
		return And(cs...)
	}
	return App("=", SBool, a, b)
}

func Ite(c, a, b *Term) *Term {
	if IsTrue(c) {
		return a
	}
	if IsFalse(c) {
		return b
	}
	if a.Sort != b.Sort {
		panic(fmt.Sprintf("Ite sort mismatch %s:%s vs %s:%s", a, a.Sort, b, b.Sort))
	}
	if a.String() == b.String() {
		return a
	}
	if a.Sort == SBool {
		if IsTrue(a) && IsFalse(b) {
			return c
		}
		if IsFalse(a) && IsTrue(b) {
			return Not(c)
		}
	}
	return App("ite", a.Sort, c, a, b)
}

func Select(arr, idx *Term) *Term {
	if !arr.Sort.IsArray() {
		panic("select on non-array " + arr.String() + " : " + string(arr.Sort))
	}
	is, es := arr.Sort.ArrayParts()
	if idx.Sort != is {
		panic(fmt.Sprintf("select index sort %s vs %s in %s[%s]", idx.Sort, is, arr, idx))
	}
	// select over store with syntactically equal / literal-distinct index
	cur := arr
	if cur.Def != nil {
		// look through a named abbreviation; keep the name if nothing simplifies
		if r := selectThrough(cur.Def, idx); r != nil {
			return r
		}
	}
	for cur.Op == "store" && len(cur.Args) == 3 {
		si := cur.Args[1]
		if si.String() == idx.String() {
			return cur.Args[2]
		}
		if si.isLit && idx.isLit && si.lit.Cmp(idx.lit) != 0 {
			cur = cur.Args[0]
			continue
		}
		break
	}
	if cur.Op == "const-array" {
		return cur.Args[0]
	}
	return App("select", es, cur, idx)
}

// selectThrough resolves a select against a store chain only when it ends in a
// definite hit (equal index) after skipping literal-distinct indices.
func selectThrough(arr, idx *Term) *Term {
	cur := arr
	for {
		if cur.Def != nil {
			cur = cur.Def
			continue
		}
		if cur.Op == "store" && len(cur.Args) == 3 {
			si := cur.Args[1]
			if si.String() == idx.String() {
				return cur.Args[2]
			}
			if si.isLit && idx.isLit && si.lit.Cmp(idx.lit) != 0 {
				cur = cur.Args[0]
				continue
			}
		}
		return nil
	}
}

func Store(arr, idx, v *Term) *Term {
	is, es := arr.Sort.ArrayParts()
	if idx.Sort != is || v.Sort != es {
		panic(fmt.Sprintf("store sort mismatch: arr %s idx %s val %s (%s)", arr.Sort, idx.Sort, v.Sort, v))
	}
	return App("store", arr.Sort, arr, idx, v)
}

// ConstArray is ((as const S) v); printed specially.
func ConstArray(s Sort, v *Term) *Term {
	t := App("const-array", s, v)
	t.str = "((as const " + string(s) + ") " + v.String() + ")"
	return t
}

func Distinct(as ...*Term) *Term {
	if len(as) < 2 {
		return TTrue
	}
	return App("distinct", SBool, as...)
}

// Forall builds a quantified formula; vars are atoms.
func Forall(vars []*Term, body *Term, patterns ...[]*Term) *Term {
	if IsTrue(body) {
		return TTrue
	}
	if len(vars) == 0 {
		return body
	}
	if len(patterns) == 0 {
		if body.Op == "and" && len(body.Args) > 1 {
			var cs []*Term
			for _, b := range body.Args {
				cs = append(cs, Forall(vars, b))
			}
			return And(cs...)
		}
		if body.Op == "=>" && len(body.Args) == 2 && body.Args[1].Op == "and" && len(body.Args[1].Args) > 1 {
			var cs []*Term
			for _, b := range body.Args[1].Args {
				cs = append(cs, Forall(vars, Imp(body.Args[0], b)))
			}
			return And(cs...)
		}
	}
	var sb strings.Builder
	sb.WriteString("(forall (")
	for _, v := range vars {
		fmt.Fprintf(&sb, "(%s %s)", v.Op, v.Sort)
	}
	sb.WriteString(") ")
	if len(patterns) > 0 {
		sb.WriteString("(! ")
		sb.WriteString(body.String())
		for _, p := range patterns {
			sb.WriteString(" :pattern (")
			for i, pt := range p {
				if i > 0 {
					sb.WriteByte(' ')
				}
				sb.WriteString(pt.String())
			}
			sb.WriteString(")")
		}
		sb.WriteString(")")
	} else {
		sb.WriteString(body.String())
	}
	sb.WriteString(")")
	t := &Term{Op: "forall", Args: []*Term{body}, Sort: SBool, Vars: vars, Pats: patterns}
	t.str = sb.String()
	return t
}

func Exists(vars []*Term, body *Term) *Term {
	if len(vars) == 0 {
		return body
	}
	var sb strings.Builder
	sb.WriteString("(exists (")
	for _, v := range vars {
		fmt.Fprintf(&sb, "(%s %s)", v.Op, v.Sort)
	}
	sb.WriteString(") ")
	sb.WriteString(body.String())
	sb.WriteString(")")
	t := &Term{Op: "exists", Args: []*Term{body}, Sort: SBool, Vars: vars}
	t.str = sb.String()
	return t
}

// ---------------------------------------------------------------------------
// Datatypes (records)

type Field struct {
	Name string
	Sort Sort
}

type Record struct {
	Name   Sort
	Ctor   string
	Fields []Field
}

func (r *Record) Decl() string {
	var sb strings.Builder
	fmt.Fprintf(&sb, "(declare-datatypes ((%s 0)) (((%s", r.Name, r.Ctor)
	for _, f := range r.Fields {
		fmt.Fprintf(&sb, " (%s %s)", f.Name, f.Sort)
	}
	sb.WriteString("))))")
	return sb.String()
}

func (r *Record) Make(args ...*Term) *Term {
	if len(args) != len(r.Fields) {
		panic("record arity " + string(r.Name))
	}
	for i, a := range args {
		if a.Sort != r.Fields[i].Sort {
			panic(fmt.Sprintf("record %s field %s: sort %s, got %s (%s)", r.Name, r.Fields[i].Name, r.Fields[i].Sort, a.Sort, a))
		}
	}
	if len(args) == 0 {
		return Atom(r.Ctor, r.Name)
	}
	return App(r.Ctor, r.Name, args...)
}

func (r *Record) Get(t *Term, i int) *Term {
	if t.Sort != r.Name {
		panic(fmt.Sprintf("record get: %s is %s not %s", t, t.Sort, r.Name))
	}
	if t.Op == r.Ctor && len(t.Args) == len(r.Fields) {
		return t.Args[i]
	}
	if t.Op == "ite" {
		return Ite(t.Args[0], r.Get(t.Args[1], i), r.Get(t.Args[2], i))
	}
	return App(r.Fields[i].Name, r.Fields[i].Sort, t)
}

func (r *Record) Set(t *Term, i int, v *Term) *Term {
	args := make([]*Term, len(r.Fields))
	for j := range r.Fields {
		if j == i {
			args[j] = v
		} else {
			args[j] = r.Get(t, j)
		}
	}
	return r.Make(args...)
}

func (r *Record) FieldIndex(name string) int {
	for i, f := range r.Fields {
		if f.Name == name {
			return i
		}
	}
	return -1
}

// ---------------------------------------------------------------------------
// symbol collection for declarations

// collectSyms walks the printed text and gathers identifiers; used to compute
// the set of declared constants an obligation needs.
func symbolsOf(text string, into map[string]bool) {
	i := 0
	n := len(text)
	for i < n {
		c := text[i]
		if c == '|' {
			j := i + 1
			for j < n && text[j] != '|' {
				j++
			}
			into[text[i:min(j+1, n)]] = true
			i = j + 1
			continue
		}
		if isSymChar(c) {
			j := i
			for j < n && isSymChar(text[j]) {
				j++
			}
			into[text[i:j]] = true
			i = j
			continue
		}
		i++
	}
}

func isSymChar(c byte) bool {
	return c == '_' || c == '.' || c == '$' || c == '!' || c == '@' || c == '#' || c == '%' || c == '~' ||
		(c >= 'a' && c <= 'z') || (c >= 'A' && c <= 'Z') || (c >= '0' && c <= '9')
}

func sortedKeys[V any](m map[string]V) []string {
	ks := make([]string, 0, len(m))
	for k := range m {
		ks = append(ks, k)
	}
	sort.Strings(ks)
	return ks
}

// smtName makes a safe SMT symbol from arbitrary text.
func smtName(s string) string {
	var sb strings.Builder
	for i := 0; i < len(s); i++ {
		c := s[i]
		if (c >= 'a' && c <= 'z') || (c >= 'A' && c <= 'Z') || (c >= '0' && c <= '9') || c == '_' || c == '.' || c == '$' {
			sb.WriteByte(c)
		} else {
			sb.WriteByte('_')
		}
	}
	return sb.String()
}
