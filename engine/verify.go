package main

import (
	"sync/atomic"
	"fmt"
	"go/ast"
	"go/token"
	"go/types"
	"path/filepath"
	"sort"
	"strings"
	"sync"
	"time"

	"golang.org/x/tools/go/ssa"
)

type UnitResult struct {
	Key         string
	Tags        []string
	Obls        []*Obligation
	Unsupported string
	Unbound     []string // name prefixes of atcall obligations whose clause matched no call site
	Notes       []string
	Paths       int
	World       *World
	Vacuity     string // "" ok, else reason
	VacuityUnknown bool
	Pruned      int
	Canary      bool
	Trusted     bool
	Seconds     float64
	Bounded     string
}

func (e *Engine) newExec(u *Unit, mode string) *Exec {
	w := NewWorld(mode)
	if u.Spec != nil {
		for _, a := range u.Spec.Abstract {
			if a == "bytecode.Type" {
				w.DeclareAbstractInstr(a)
			}
		}
	}
	return &Exec{eng: e, w: w, unit: u, compSorts: map[string]Sort{}, closureIDs: map[*SV]*Term{}, closureOf: map[string]*SV{},
		writes: map[string]bool{}, entryEnv: map[string]*SV{}, oblSeq: map[string]int{}}
}

func (e *Engine) initState(x *Exec) *State {
	a0 := x.w.declConst("alloc0", SInt)
	st := &State{heap: &Heap{comps: map[string]*Term{}, alloc: a0}, known: map[string]bool{}}
	st.assume(App("<", SBool, IntLit(0, SInt), a0))
	x.alloc0 = a0
	e.installAutoLemmas(x, st)
	return st
}

// installAutoLemmas adds the package's `auto` lemmas (each proved in its own unit) as quantified
// axioms; only lemmas over heap-independent spec functions qualify.
func (e *Engine) installAutoLemmas(x *Exec, st *State) {
	if x.unit == nil || x.unit.Spec == nil {
		return
	}
	for _, con := range x.unit.Spec.Contracts {
		if con.Kind != "lemma" || !con.Auto || con == x.unit.Con {
			continue
		}
		fd := firstClauseFunc(con)
		if fd == nil {
			continue
		}
		info := e.clauseInfo[firstClause(con)]
		env := &Env{x: x, vars: map[string]*SV{}, bound: map[string]*Term{}, heap: st.heap, old: st.heap, info: info}
		var vars []*Term
		for _, f := range fd.Type.Params.List {
			t := info.Types[f.Type].Type
			for _, nm := range f.Names {
				x.w.seq++
				v := Atom(fmt.Sprintf("%s!q%d", nm.Name, x.w.seq), x.w.SortOf(t))
				vars = append(vars, v)
				env.bound[nm.Name] = v
			}
		}
		var pre, post []*Term
		for _, c := range con.Requires {
			e2 := *env
			e2.info = e.clauseInfo[c]
			pre = append(pre, x.svTerm(e2.eval(c.Expr)))
		}
		for _, c := range con.Ensures {
			e2 := *env
			e2.info = e.clauseInfo[c]
			post = append(post, x.svTerm(e2.eval(c.Expr)))
		}
		lt := Forall(vars, Imp(And(pre...), And(post...)))
		lt.Lemma = true
		x.w.axioms = append(x.w.axioms, lt)
		x.notes = append(x.notes, "uses lemma "+con.Key+" (proved as its own unit)")
	}
}

func (e *Engine) assumeGlobalInvs(x *Exec, st *State, pkgPath string) {
	for _, ps := range e.specs {
		// global invariants of every package that is imported (they talk about that package's globals)
		for _, c := range ps.GlobalInv {
			env := &Env{x: x, vars: map[string]*SV{}, heap: st.heap, old: st.heap}
			st.assume(x.evalClauseBool(c, env, st))
		}
	}
}

// VerifyFunc verifies one function against its contract.
func (e *Engine) VerifyFunc(con *Contract, workdir string, timeoutS int, all bool) *UnitResult {
	start := time.Now()
	ps := e.specs[con.Pkg]
	fn := e.byKey[con.Pkg][con.Key]
	key := shortPkg(con.Pkg) + "." + con.Key
	if con.Canary {
		key += "{canary}"
	}
	res := &UnitResult{Key: key, Tags: con.Tags, Canary: con.Canary, Trusted: con.Trusted, Bounded: con.Bounded}
	if con.Trusted || con.View {
		res.Trusted = true
		return res
	}
	if con.Unbound {
		res.Notes = append(res.Notes, "contract no longer binds to the code (a clause does not type-check): unit not verified")
		// forbidden call sites are a matter of the source text alone: they are still reported
		for _, c := range con.Forbids {
			if fn != nil && len(e.callSitePositions(fn, c.Site)) > 0 {
				res.Obls = append(res.Obls, &Obligation{Name: key + "#forbid[" + c.Label + "@" + c.Site + "]", Kind: "forbid", Tags: c.Tags, Goal: TFalse,
					Status: "sat", Solver: "syntactic", Unit: key, Pos: e.posString(e.callSitePositions(fn, c.Site)[0])})
			}
		}
		if len(res.Obls) > 0 {
			return res
		}
		res.Trusted = true
		return res
	}
	u := &Unit{Key: key, Con: con, Fn: fn, Spec: ps}
	x := e.newExec(u, ps.Mode)
	res.World = x.w
	for _, c := range con.AtCalls {
		if fn != nil && len(e.callSitePositions(fn, c.Site)) == 0 {
			// a clause that binds nowhere would be vacuous. If its obligation was discharged on the
			// pinned tree the code has changed under it: that is reported as UNDECIDED through the
			// ledger (obligation no longer generated). If it never existed the contract is wrong.
			res.Unbound = append(res.Unbound, fmt.Sprintf("%s#atcall[%s@", key, c.Label))
			res.Notes = append(res.Notes, fmt.Sprintf("atcall clause [%s]: no call site of %s matches %q", c.Label, key, c.Site))
		}
	}
	if con.TrustFrame {
		x.notes = append(x.notes, "the frame (modifies clause) of "+key+" is assumed, not checked (trustframe): only its postconditions are verified")
	}
	if con.ImplicitOnly != nil {
		var ks []string
		for k := range con.ImplicitOnly {
			if k != "-" {
				ks = append(ks, k)
			}
		}
		sort.Strings(ks)
		x.notes = append(x.notes, "implicit safety obligations of "+key+" are checked only for the kinds ["+strings.Join(ks, " ")+"]; the others (nil dereference, index, slice bounds, ...) are assumed to hold")
	}
	if !e.noPrune {
		x.feas = newFeasSolver()
		defer x.feas.close()
	}
	func() {
		defer func() {
			if r := recover(); r != nil {
				if us, ok := r.(unsupported); ok {
					res.Unsupported = us.msg
					return
				}
				panic(r)
			}
		}()
		st := e.initState(x)
		// parameters
		var args []*SV
		bind := func(name string, t types.Type, i int) *SV {
			if name == "" || name == "_" {
				name = fmt.Sprintf("_p%d", i)
			}
			v := x.freshOfType(st, "in."+name, t)
			x.entryEnv[name] = v
			return v
		}
		sig := fn.Signature
		idx := 0
		pnames := con.ParamNames
		if con.Implements != "" && len(pnames) > 0 {
			pnames = pnames[1:]
		}
		nameAt := func(i int, def string) string {
			if i < len(pnames) && pnames[i] != "" {
				return pnames[i]
			}
			return def
		}
		if con.Implements != "" && strings.Contains(con.Implements, ".") && fn.Signature.Recv() != nil {
			// a method implementing an interface method: self is the receiver seen through the interface (bound below)
		} else if con.Implements != "" {
			if fn.Parent() == nil && len(fn.FreeVars) == 0 {
				x.entryEnv["self"] = TV(x.fnTerm(&SV{Fn: fn}))
			} else {
				x.entryEnv["self"] = TV(x.w.Fresh("in.self", SInt))
			}
		}
		if sig.Recv() != nil {
			n := sig.Recv().Name()
			if n == "" || n == "_" {
				n = "recv"
			}
			rv := bind(nameAt(idx, n), sig.Recv().Type(), idx)
			args = append(args, rv)
			if con.Implements != "" && strings.Contains(con.Implements, ".") {
				rt := sig.Recv().Type()
				x.entryEnv["self"] = TV(x.w.iface.Make(x.w.TypeID(rt), x.w.Box(rt, x.svTerm(rv))))
			}
			idx++
		}
		for i := 0; i < sig.Params().Len(); i++ {
			args = append(args, bind(nameAt(idx, sig.Params().At(i).Name()), sig.Params().At(i).Type(), idx))
			idx++
		}
		var free []*SV
		for _, fv := range fn.FreeVars {
			et := fv.Type().(*types.Pointer).Elem()
			// the captured variable lives in a heap cell allocated before entry
			r := x.w.Fresh("fv."+fv.Name(), SInt)
			st.assume(And(App("<", SBool, IntLit(0, SInt), r), App("<", SBool, r, st.heap.alloc)))
			p := &Ptr{Ref: r, Base: et}
			free = append(free, &SV{P: p})
			v := x.Load(nil, st, p)
			if needsValidity(et, 0) {
				x.assumeValid(st, v, et, 0)
			}
			x.entryEnv[fv.Name()] = TV(v)
		}
		// distinct captured cells
		for i := range free {
			for j := i + 1; j < len(free); j++ {
				if types.Identical(free[i].P.Base, free[j].P.Base) {
					st.assume(Not(Eq(free[i].P.Ref, free[j].P.Ref)))
				}
			}
		}
		x.heap0 = st.heap.clone()
		e.assumeGlobalInvs(x, st, con.Pkg)
		env := &Env{x: x, vars: x.entryEnv, heap: st.heap, old: st.heap}
		for _, c := range con.Requires {
			st.assume(x.evalClauseBool(c, env, st))
		}
		// vacuity: precondition satisfiable
		x.obls = append(x.obls, &Obligation{Name: key + "#vacuity[requires]", Kind: "vacuity", Tags: con.Tags, Assume: append([]*Term(nil), st.pc...), Goal: nil, Unit: key})
		x.heap0 = st.heap.clone()
		x.computeModLocs(con)
		x.runFunction(fn, st, args, free, 0, false, func(st2 *State, r *SV) {
			penv := &Env{x: x, vars: map[string]*SV{}, heap: st2.heap, old: x.heap0, markHeap: st2.markHeap}
			for k, v := range x.entryEnv {
				penv.vars[k] = v
			}
			bindResults(penv, con.ResultNames, r)
			pos := fn.Pos()
			for _, c := range con.Ensures {
				g := x.evalClauseBool(c, penv, st2)
				x.oblige(st2, "ensures", c.Label, c.Tags, g, pos)
			}
			if !con.ModifiesAll && !con.TrustFrame {
				x.frameObligations(st2, con, pos)
			}
		})
	}()
	res.Paths = x.paths
	if x.feas != nil {
		res.Pruned = x.feas.pruned
	}
	res.Notes = dedupe(append(res.Notes, x.notes...))
	res.Obls = x.obls
	if res.Unsupported == "" && len(x.vacuous) > 0 && !con.Canary {
		res.Unsupported = "vacuity: " + strings.Join(dedupe(x.vacuous), "; ")
	}
	if res.Unsupported == "" {
		e.solveUnit(x.w, res, workdir, timeoutS, all)
	}
	res.Seconds = time.Since(start).Seconds()
	return res
}

func shortPkg(p string) string {
	p = strings.TrimPrefix(p, repoModule)
	p = strings.TrimPrefix(p, "/")
	if p == "" {
		return "calc"
	}
	return strings.ReplaceAll(p, "/", ".")
}

func dedupe(xs []string) []string {
	seen := map[string]bool{}
	var out []string
	for _, s := range xs {
		if !seen[s] {
			seen[s] = true
			out = append(out, s)
		}
	}
	return out
}

// frameGoal: for component c with current value `now`, every location that
// existed at entry and is not named in the unit's modifies clause is unchanged.
func (x *Exec) frameGoal(c string, now *Term) *Term {
	s := x.compSorts[c]
	was := x.compOf(x.heap0, c, s)
	if now.String() == was.String() {
		return TTrue
	}
	if !s.IsArray() || strings.HasPrefix(c, "G!") {
		if len(x.modLocs[c]) > 0 {
			return TTrue
		}
		return Eq(now, was)
	}
	is, _ := s.ArrayParts()
	r := Atom("r!f", is)
	var conds []*Term
	if is == SInt && !strings.HasPrefix(c, "GH!") {
		conds = append(conds, App("<", SBool, r, x.alloc0))
	}
	for _, m := range x.modLocs[c] {
		if m == nil {
			return TTrue // the whole component is named in modifies
		}
		conds = append(conds, Not(Eq(r, m)))
	}
	return Forall([]*Term{r}, Imp(And(conds...), Eq(Select(now, r), Select(was, r))))
}

func (x *Exec) computeModLocs(con *Contract) {
	pre := &Env{x: x, vars: x.entryEnv, heap: x.heap0, old: x.heap0}
	x.modLocs = map[string][]*Term{}
	for _, l := range x.modifiesLocs(con, pre, nil) {
		x.modLocs[l.comp] = append(x.modLocs[l.comp], l.ref)
	}
}

func (x *Exec) frameObligations(st *State, con *Contract, pos token.Pos) {
	names := make([]string, 0, len(x.writes))
	for c := range x.writes {
		names = append(names, c)
	}
	sort.Strings(names)
	for _, c := range names {
		s := x.compSorts[c]
		now := x.compOf(st.heap, c, s)
		g := x.frameGoal(c, now)
		if IsTrue(g) {
			continue
		}
		x.oblige(st, "frame", c, con.Tags, g, pos)
	}
}

// solveUnit discharges the obligations of a unit (unique scripts once).
func (e *Engine) solveUnit(w *World, res *UnitResult, workdir string, timeoutS int, all bool) {
	type job struct {
		script string
		qf     string
		rich   string
		plain  string
		file   string
		obls   []*Obligation
		vac    bool
	}
	jobs := map[string]*job{}
	var order []*job
	for i, o := range res.Obls {
		if o.Status != "" {
			continue
		}
		if e.prop != "" && o.Kind != "vacuity" && !res.Canary && !hasTag(o.Tags, e.prop) {
			// not an obligation of the property being checked: not solved, not reported
			o.Status = "skipped"
			continue
		}
		var script, plain, rich, qf string
		if o.Kind == "vacuity" {
			script = w.Script(o.Assume, nil, false)
		} else {
			as, g := instantiate(w, o.Assume, o.Goal)
			script = w.Script(as, g, true)
			if gs := g.String(); !strings.Contains(gs, "(forall ") && !strings.Contains(gs, "(exists ") {
				qf = w.ScriptQF(as, g)
				if qf == script {
					qf = ""
				}
			}
			plain = w.Script(o.Assume, o.Goal, true)
			if plain == script {
				plain = ""
			} else {
				as2, g2 := instantiateMode(w, o.Assume, o.Goal, true)
				rich = w.Script(as2, g2, true)
				if rich == script {
					rich = ""
				}
			}
		}
		j := jobs[script]
		if j == nil {
			j = &job{script: script, qf: qf, rich: rich, plain: plain, file: filepath.Join(workdir, fmt.Sprintf("%s_%04d.smt2", smtName(res.Key), i)), vac: o.Kind == "vacuity"}
			jobs[script] = j
			order = append(order, j)
		}
		o.Script = j.file
		j.obls = append(j.obls, o)
	}
	var wg sync.WaitGroup
	var sawSat int32 // a definite counterexample in this unit: no long retries for the undecided rest
	for _, j := range order {
		wg.Add(1)
		go func(j *job) {
			defer wg.Done()
			t := timeoutS
			var r solveResult
			if len(j.obls) > 0 && e.knownOpen[j.obls[0].Name] {
				// listed open finding: one short attempt at the instantiated query is enough to
				// notice that it has started to hold; otherwise it is reported as the known finding
				r = solve(j.script, j.file, 3, false, []string{"z3-new"})
				for _, o := range j.obls {
					o.Status, o.Solver, o.TimeS = r.status, r.solver, r.secs
					if r.status != "unsat" {
						o.Model = r.out
					}
				}
				return
			}
			if j.qf != "" {
				// stage 0: ground premises only, one solver, short budget
				if all {
					// thorough: every solver on the ground query, answers must not disagree
					r = solve(j.qf, strings.TrimSuffix(j.file, ".smt2")+"_qf.smt2", 5, true, nil)
				} else {
					r = solve(j.qf, strings.TrimSuffix(j.file, ".smt2")+"_qf.smt2", 3, false, []string{"z3-new"})
				}
				if r.status != "unsat" {
					r = solveResult{status: "unknown"}
				}
			}
			if r.status != "unsat" {
				r0 := solve(j.script, j.file, t, all && !j.vac, nil)
				r0.secs += r.secs
				r = r0
			}
			if r.status != "unsat" && j.rich != "" {
				r1 := solve(j.rich, strings.TrimSuffix(j.file, ".smt2")+"_rich.smt2", t, false, nil)
				if r1.status == "unsat" {
					r1.secs += r.secs
					r = r1
				}
			}
			if r.status != "unsat" && j.plain != "" {
				// the instantiated query did not close: ask for a verdict (and a model) on the plain one
				r2 := solve(j.plain, strings.TrimSuffix(j.file, ".smt2")+"_plain.smt2", t, false, nil)
				if r2.status != "unknown" {
					r2.secs += r.secs
					r = r2
				}
			}
			if r.status == "sat" && !j.vac {
				atomic.StoreInt32(&sawSat, 1)
			}
			if r.status == "unknown" && !j.vac && atomic.LoadInt32(&sawSat) == 0 {
				// no answer within the budget: before this is reported as undecided (or, for an
				// obligation discharged on the pinned tree, as a violation) give the instantiated
				// query a much longer budget - a loaded machine must not turn into an alarm
				r4 := solve(j.script, strings.TrimSuffix(j.file, ".smt2")+"_retry.smt2", t*6, false, nil)
				if r4.status == "unsat" {
					r4.secs += r.secs
					r = r4
				} else if j.rich != "" {
					r5 := solve(j.rich, strings.TrimSuffix(j.file, ".smt2")+"_rich_retry.smt2", t*6, false, nil)
					if r5.status == "unsat" {
						r5.secs += r.secs
						r = r5
					}
				}
			}
			for _, o := range j.obls {
				o.Status, o.Solver, o.TimeS = r.status, r.solver, r.secs
				if r.status != "unsat" {
					o.Model = r.out
				}
				if all && !j.vac {
					sawSat, sawUnsat := false, false
					for _, s := range r.all {
						sawSat = sawSat || s == "sat"
						sawUnsat = sawUnsat || s == "unsat"
					}
					if sawSat && sawUnsat {
						o.Solver = "DISAGREE"
					}
				}
			}
		}(j)
	}
	wg.Wait()
	for _, o := range res.Obls {
		if o.Kind == "vacuity" {
			switch o.Status {
			case "sat":
				o.Status = "unsat" // "discharged": the precondition is satisfiable
				o.Model = ""
			case "unsat":
				o.Status = "sat"
				res.Vacuity = "precondition of " + res.Key + " is unsatisfiable"
			default:
				res.VacuityUnknown = true
			}
		}
	}
}

// VerifyLemma proves a lemma: fresh variables, assume requires, prove ensures.
func (e *Engine) VerifyLemma(con *Contract, workdir string, timeoutS int, all bool) *UnitResult {
	start := time.Now()
	ps := e.specs[con.Pkg]
	key := shortPkg(con.Pkg) + ".lemma " + con.Key
	res := &UnitResult{Key: key, Tags: con.Tags, Canary: con.Canary}
	u := &Unit{Key: key, Con: con, Spec: ps}
	x := e.newExec(u, ps.Mode)
	res.World = x.w
	func() {
		defer func() {
			if r := recover(); r != nil {
				if us, ok := r.(unsupported); ok {
					res.Unsupported = us.msg
					return
				}
				panic(r)
			}
		}()
		st := e.initState(x)
		x.heap0 = st.heap.clone()
		// variables: types come from the clause function's parameter list
		var fd = firstClauseFunc(con)
		if fd != nil {
			info := e.clauseInfo[firstClause(con)]
			for _, f := range fd.Type.Params.List {
				t := info.Types[f.Type].Type
				for _, nm := range f.Names {
					x.entryEnv[nm.Name] = x.freshOfType(st, "v."+nm.Name, t)
				}
			}
		}
		e.assumeGlobalInvs(x, st, con.Pkg)
		env := &Env{x: x, vars: x.entryEnv, heap: st.heap, old: st.heap}
		for _, c := range con.Requires {
			st.assume(x.evalClauseBool(c, env, st))
		}
		x.obls = append(x.obls, &Obligation{Name: key + "#vacuity[requires]", Kind: "vacuity", Tags: con.Tags, Assume: append([]*Term(nil), st.pc...), Unit: key})
		for _, c := range con.Ensures {
			g := x.evalClauseBool(c, env, st)
			x.oblige(st, "lemma", c.Label, c.Tags, g, token.NoPos)
		}
	}()
	res.Notes = dedupe(x.notes)
	res.Obls = x.obls
	if res.Unsupported == "" {
		e.solveUnit(x.w, res, workdir, timeoutS, all)
	}
	res.Seconds = time.Since(start).Seconds()
	return res
}

func firstClause(con *Contract) *Clause {
	if len(con.Requires) > 0 {
		return con.Requires[0]
	}
	if len(con.Ensures) > 0 {
		return con.Ensures[0]
	}
	return nil
}

func firstClauseFunc(con *Contract) *ast.FuncDecl {
	c := firstClause(con)
	if c == nil {
		return nil
	}
	return c.Func
}

var _ = ssa.NaiveForm
