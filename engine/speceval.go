package main

// Translation of type-checked contract expressions (Go AST) into SMT terms.

import (
	"sync"
	"fmt"
	"go/ast"
	"go/constant"
	"go/token"
	"go/types"
	"strings"

	"golang.org/x/tools/go/ssa"
)

type Env struct {
	x     *Exec
	vars  map[string]*SV
	bound map[string]*Term
	heap  *Heap
	old   *Heap
	fr    *Frame // for loop clauses: current values of locals
	st    *State // for assumptions produced during pure evaluation (validity facts)
	info  *types.Info
	depth int
	scopePos token.Pos // atcall clauses: plain local names resolve as at this source position
	iterHeap  *Heap    // iter(e): heap and locals at the head of the current iteration of loop 0
	iterCells map[*ssa.Alloc]*Term
	markHeap  *Heap // marked(e): heap after the call designated by the unit's mark clause
}

func (en *Env) with(heap *Heap) *Env {
	c := *en
	c.heap = heap
	return &c
}

func (x *Exec) loopEnv(fr *Frame, st *State) *Env {
	env := &Env{x: x, vars: map[string]*SV{}, heap: st.heap, old: x.heap0, fr: fr, iterHeap: fr.iterHeap, iterCells: fr.iterCells, markHeap: st.markHeap}
	for k, v := range x.entryEnv {
		env.vars[k] = v
	}
	return env
}

func (x *Exec) evalClauseBool(c *Clause, env *Env, st *State) *Term {
	if c.Expr == nil {
		unsupportedf("clause %s has no expression (overlay not loaded?)", c.GoName)
	}
	if c.Unbound {
		return TTrue
	}
	e2 := *env
	e2.st = st
	e2.info = x.eng.infoFor(c)
	v := e2.eval(c.Expr)
	t := x.svTerm(v)
	if t.Sort != SBool {
		unsupportedf("clause %s is not boolean", c.GoName)
	}
	return t
}

func (x *Exec) evalClauseInt(c *Clause, env *Env, st *State) *Term {
	e2 := *env
	e2.st = st
	e2.info = x.eng.infoFor(c)
	return x.svTerm(e2.eval(c.Expr))
}

func (en *Env) typeOf(e ast.Expr) types.Type {
	tv, ok := en.info.Types[e]
	if !ok {
		if id, ok := e.(*ast.Ident); ok {
			if o := en.info.Uses[id]; o != nil {
				return o.Type()
			}
			if o := en.info.Defs[id]; o != nil {
				return o.Type()
			}
		}
		unsupportedf("no type for spec expression %s", exprString(e))
	}
	return tv.Type
}

func (en *Env) evalT(e ast.Expr) *Term { return en.x.svTerm(en.eval(e)) }

func (en *Env) eval(e ast.Expr) *SV {
	x, w := en.x, en.x.w
	if tv, ok := en.info.Types[e]; ok && tv.Value != nil {
		t := tv.Type
		if b, ok := t.(*types.Basic); ok && b.Info()&types.IsUntyped != 0 {
			t = types.Default(t)
		}
		if _, isBasic := t.Underlying().(*types.Basic); isBasic {
			return TV(w.ConstTerm(tv.Value, t))
		}
		unsupportedf("constant %s of non-basic type %s in spec", exprString(e), t)
	}
	switch n := e.(type) {
	case *ast.ParenExpr:
		return en.eval(n.X)
	case *ast.Ident:
		return en.evalIdent(n)
	case *ast.SelectorExpr:
		return en.evalSelector(n)
	case *ast.StarExpr:
		p := en.eval(n.X)
		pt := en.typeOf(n.X)
		ptr := p.P
		if ptr == nil {
			ptr = x.ptrFromTerm(p.T, pt)
		}
		v := en.load(ptr)
		if et := ptr.targetType(); en.st != nil && needsValidity(et, 0) {
			en.validIn(v, et)
		}
		return TV(v)
	case *ast.UnaryExpr:
		switch n.Op {
		case token.NOT:
			return TV(Not(en.evalT(n.X)))
		case token.SUB:
			v := en.evalT(n.X)
			if v.Sort == SF64 {
				return TV(App("fp.neg", SF64, v))
			}
			if v.Sort == SInt {
				return TV(w.Sub(IntLit(0, SInt), v))
			}
			return TV(App("bvneg", v.Sort, v))
		case token.XOR:
			v := en.evalT(n.X)
			if v.Sort == SInt {
				w.declFun("bnot", "(Int) Int")
				return TV(App("bnot", SInt, v))
			}
			return TV(App("bvnot", v.Sort, v))
		case token.AND:
			return &SV{P: en.addrOf(n.X)}
		}
	case *ast.BinaryExpr:
		switch n.Op {
		case token.LAND:
			return TV(And(en.evalT(n.X), en.evalT(n.Y)))
		case token.LOR:
			return TV(Or(en.evalT(n.X), en.evalT(n.Y)))
		}
		ta, tb := en.typeOf(n.X), en.typeOf(n.Y)
		var a, b *Term
		switch {
		case isNilIdent(n.Y):
			a = en.evalT(n.X)
			b = w.Zero(ta)
			tb = ta
		case isNilIdent(n.X):
			b = en.evalT(n.Y)
			a = w.Zero(tb)
			ta = tb
		default:
			a, b = en.evalT(n.X), en.evalT(n.Y)
		}
		if bt, ok := ta.(*types.Basic); ok && bt.Info()&types.IsUntyped != 0 {
			ta = tb
		}
		if bt, ok := tb.(*types.Basic); ok && bt.Info()&types.IsUntyped != 0 {
			tb = ta
		}
		if a.Sort != b.Sort && n.Op != token.SHL && n.Op != token.SHR {
			// untyped constants adopt the other operand's sort
			if a.isLit {
				a = IntLitBig(a.lit, b.Sort)
			} else if b.isLit {
				b = IntLitBig(b.lit, a.Sort)
			}
		}
		return TV(x.binop(nil, en.st, n.Op, a, b, ta, tb, token.NoPos))
	case *ast.IndexExpr:
		return en.evalIndex(n)
	case *ast.SliceExpr:
		return en.evalSlice(n)
	case *ast.CallExpr:
		return en.evalCall(n)
	case *ast.TypeAssertExpr:
		v := en.evalT(n.X)
		t := en.typeOf(n)
		if _, isIface := t.Underlying().(*types.Interface); isIface {
			return TV(v)
		}
		return TV(w.Unbox(t, w.iface.Get(v, 1)))
	case *ast.CompositeLit:
		t := en.typeOf(n)
		st, ok := t.Underlying().(*types.Struct)
		if !ok {
			unsupportedf("composite literal of %s in spec", t)
		}
		r := w.RecordOfType(t)
		v := w.Zero(t)
		for i, el := range n.Elts {
			if kv, ok := el.(*ast.KeyValueExpr); ok {
				name := kv.Key.(*ast.Ident).Name
				for j := 0; j < st.NumFields(); j++ {
					if st.Field(j).Name() == name {
						v = r.Set(v, j, en.coerce(en.evalAs(kv.Value, st.Field(j).Type()), r.Fields[j].Sort))
					}
				}
			} else {
				v = r.Set(v, i, en.coerce(en.evalAs(el, st.Field(i).Type()), r.Fields[i].Sort))
			}
		}
		return TV(v)
	}
	unsupportedf("spec expression %s (%T)", exprString(e), e)
	return nil
}

// evalAs evaluates e and converts it to the static type `to` (boxing a concrete value into an
// interface where the Go assignment would).
func (en *Env) evalAs(e ast.Expr, to types.Type) *Term {
	w := en.x.w
	v := en.eval(e)
	t := en.x.svTerm(v)
	if _, toIface := to.Underlying().(*types.Interface); toIface {
		from := en.typeOf(e)
		if b, ok := from.(*types.Basic); ok && b.Kind() == types.UntypedNil {
			return w.Zero(to)
		}
		if _, fromIface := from.Underlying().(*types.Interface); !fromIface {
			return w.iface.Make(w.TypeID(from), w.Box(from, t))
		}
		return t
	}
	return en.coerceArg(t, to)
}

func isNilIdent(e ast.Expr) bool {
	id, ok := e.(*ast.Ident)
	return ok && id.Name == "nil"
}

func (en *Env) coerce(t *Term, s Sort) *Term {
	if t.Sort == s {
		return t
	}
	if t.isLit {
		return IntLitBig(t.lit, s)
	}
	unsupportedf("sort mismatch in spec: %s vs %s", t.Sort, s)
	return nil
}

func (en *Env) load(p *Ptr) *Term {
	tmp := &State{heap: en.heap, known: map[string]bool{}}
	v := en.x.Load(en.fr, tmp, p)
	if en.st != nil {
		for _, a := range tmp.pc {
			en.st.assume(a)
		}
	}
	return v
}

func (en *Env) evalIdent(n *ast.Ident) *SV {
	x, w := en.x, en.x.w
	switch n.Name {
	case "true":
		return TV(TTrue)
	case "false":
		return TV(TFalse)
	case "nil":
		return TV(w.Zero(en.typeOf(n)))
	}
	if t, ok := en.bound[n.Name]; ok {
		return TV(t)
	}
	obj := en.info.Uses[n]
	// current value of a local (loop clauses)
	if en.fr != nil {
		if _, isVar := obj.(*types.Var); isVar && obj.Parent() != nil && obj.Parent() != obj.Pkg().Scope() {
			if en.scopePos.IsValid() && !strings.Contains(n.Name, "__") {
				// atcall clauses: the declaration visible at the call site
				if v := scopedLocal(en.fr.fn, n.Name, en.scopePos); v != nil {
					for _, l := range allAllocs(en.fr.fn) {
						if l.Comment == n.Name && l.Pos() == v.Pos() {
							if sv, ok := en.fr.vals[l]; ok && sv.P != nil {
								return TV(en.load(sv.P))
							}
						}
					}
				}
			}
			if l := localByName(en.fr.fn, n.Name); l != nil {
				if sv, ok := en.fr.vals[l]; ok && sv.P != nil {
					return TV(en.load(sv.P))
				}
				if en.iterHeap != nil {
					// step / exit clauses: a local whose declaration was not reached on this path has no
					// value yet - the clause has to hold whatever it would be
					return TV(w.Fresh("undecl."+n.Name, w.SortOf(l.Type().(*types.Pointer).Elem())))
				}
			}
		}
	}
	if v, ok := en.vars[n.Name]; ok {
		return v
	}
	switch o := obj.(type) {
	case *types.Var:
		if o.Parent() == o.Pkg().Scope() {
			g := x.eng.globalFor(o)
			if g == nil {
				unsupportedf("global %s not found", o.Name())
			}
			return TV(en.load(&Ptr{Global: g, Base: o.Type()}))
		}
	case *types.Func:
		fn := x.eng.prog.FuncValue(o)
		if fn != nil {
			return &SV{Fn: fn}
		}
	case *types.Nil:
		return TV(w.Zero(en.typeOf(n)))
	}
	unsupportedf("unbound identifier %s in spec", n.Name)
	return nil
}

func (en *Env) evalSelector(n *ast.SelectorExpr) *SV {
	x, w := en.x, en.x.w
	// qualified identifier
	if id, ok := n.X.(*ast.Ident); ok {
		if _, ok := en.info.Uses[id].(*types.PkgName); ok {
			obj := en.info.Uses[n.Sel]
			switch o := obj.(type) {
			case *types.Var:
				g := x.eng.globalFor(o)
				if g == nil {
					unsupportedf("global %s not found", o.Name())
				}
				return TV(en.load(&Ptr{Global: g, Base: o.Type()}))
			case *types.Func:
				if fn := x.eng.prog.FuncValue(o); fn != nil {
					return &SV{Fn: fn}
				}
			}
			unsupportedf("qualified identifier %s", exprString(n))
		}
	}
	sel := en.info.Selections[n]
	if sel == nil || sel.Kind() != types.FieldVal {
		unsupportedf("selector %s is not a field", exprString(n))
	}
	base := en.eval(n.X)
	bt := en.typeOf(n.X)
	// follow the (possibly embedded) field path
	cur := bt
	var v *Term
	var ptr *Ptr
	if base.P != nil {
		ptr = base.P
		cur = ptr.targetType()
	} else {
		v = base.T
	}
	for _, idx := range sel.Index() {
		if pt, ok := cur.Underlying().(*types.Pointer); ok {
			// dereference
			if ptr == nil {
				ptr = x.ptrFromTerm(v, cur)
			} else {
				ptr = x.ptrFromTerm(en.load(ptr), cur)
			}
			v = nil
			cur = pt.Elem()
		}
		st := cur.Underlying().(*types.Struct)
		ft := st.Field(idx).Type()
		if ptr != nil {
			ptr = ptr.with(PathStep{Field: idx, T: ft})
		} else {
			v = w.RecordOfType(cur).Get(v, idx)
		}
		cur = ft
	}
	if ptr != nil {
		v = en.load(ptr)
	}
	if en.st != nil && needsValidity(cur, 0) {
		en.validIn(v, cur)
	}
	return TV(v)
}

// addrOf evaluates &e for field selectors and index expressions.
func (en *Env) addrOf(e ast.Expr) *Ptr {
	x := en.x
	switch n := e.(type) {
	case *ast.ParenExpr:
		return en.addrOf(n.X)
	case *ast.SelectorExpr:
		sel := en.info.Selections[n]
		if sel == nil {
			unsupportedf("address of %s", exprString(e))
		}
		bt := en.typeOf(n.X)
		var ptr *Ptr
		cur := bt
		if pt, ok := bt.Underlying().(*types.Pointer); ok {
			base := en.eval(n.X)
			if base.P != nil {
				ptr = base.P
			} else {
				ptr = x.ptrFromTerm(base.T, bt)
			}
			cur = pt.Elem()
		} else {
			ptr = en.addrOf(n.X)
		}
		for _, idx := range sel.Index() {
			st := cur.Underlying().(*types.Struct)
			ft := st.Field(idx).Type()
			ptr = ptr.with(PathStep{Field: idx, T: ft})
			cur = ft
		}
		return ptr
	case *ast.Ident:
		if en.fr != nil {
			for _, l := range en.fr.fn.Locals {
				if l.Comment == n.Name {
					if sv, ok := en.fr.vals[l]; ok && sv.P != nil {
						return sv.P
					}
				}
			}
		}
		if v, ok := en.vars[n.Name]; ok && v.P != nil {
			return v.P
		}
	case *ast.IndexExpr:
		ct := en.typeOf(n.X)
		if sl, ok := ct.Underlying().(*types.Slice); ok {
			s := en.evalT(n.X)
			i := en.coerce(en.evalT(n.Index), x.w.IS)
			return &Ptr{Ref: x.w.slice.Get(s, 0), Elem: x.w.Add(x.w.slice.Get(s, 1), i), Base: sl.Elem()}
		}
	case *ast.StarExpr:
		p := en.eval(n.X)
		if p.P != nil {
			return p.P
		}
		return x.ptrFromTerm(p.T, en.typeOf(n.X))
	}
	unsupportedf("address of %s in spec", exprString(e))
	return nil
}

func (en *Env) evalIndex(n *ast.IndexExpr) *SV {
	x, w := en.x, en.x.w
	// generic instantiation f[T] appears only under CallExpr; handled there
	ct := en.typeOf(n.X)
	switch u := ct.Underlying().(type) {
	case *types.Slice:
		s := en.evalT(n.X)
		i := en.coerce(en.evalT(n.Index), w.IS)
		_, e := x.elemComp(en.heap, u.Elem())
		v := Select(Select(e, w.slice.Get(s, 0)), w.Add(w.slice.Get(s, 1), i))
		if en.st != nil && needsValidity(u.Elem(), 0) {
			en.validIn(v, u.Elem())
		}
		return TV(v)
	case *types.Array:
		a := en.evalT(n.X)
		return TV(Select(a, en.coerce(en.evalT(n.Index), w.IS)))
	case *types.Basic:
		s := en.evalT(n.X)
		return TV(App("sat", w.byteSort(), s, en.coerce(en.evalT(n.Index), w.IS)))
	case *types.Map:
		m := en.evalT(n.X)
		k := en.evalT(n.Index)
		_, mv, _, _ := x.mapComps(en.heap, u, ct)
		return TV(Select(Select(mv, m), k))
	case *types.Pointer:
		if at, ok := u.Elem().Underlying().(*types.Array); ok {
			p := en.eval(n.X)
			ptr := p.P
			if ptr == nil {
				ptr = x.ptrFromTerm(p.T, ct)
			}
			return TV(en.load(ptr.with(PathStep{Field: -1, Index: en.coerce(en.evalT(n.Index), w.IS), T: at.Elem()})))
		}
	}
	unsupportedf("index expression %s in spec", exprString(n))
	return nil
}

// validIn adds validity facts for a value read from the heap, under the
// bound-variable context they are only usable when closed; skip if it mentions
// bound variables.
func (en *Env) validIn(v *Term, t types.Type) {
	if len(en.bound) > 0 {
		// usable only when closed: skip if the value mentions a bound variable
		vs := v.String()
		for _, b := range en.bound {
			if strings.Contains(vs, b.String()) {
				return
			}
		}
	}
	if en.st == nil {
		return
	}
	tmp := &State{heap: en.heap, known: map[string]bool{}}
	en.x.assumeValid(tmp, v, t, 0)
	for _, a := range tmp.pc {
		en.st.assume(a)
	}
}

func (en *Env) evalSlice(n *ast.SliceExpr) *SV {
	w := en.x.w
	ct := en.typeOf(n.X)
	opt := func(e ast.Expr) *Term {
		if e == nil {
			return nil
		}
		return en.coerce(en.evalT(e), w.IS)
	}
	lo, hi := opt(n.Low), opt(n.High)
	switch ct.Underlying().(type) {
	case *types.Slice:
		s := en.evalT(n.X)
		if lo == nil {
			lo = w.Int(0)
		}
		if hi == nil {
			hi = w.slice.Get(s, 2)
		}
		cp := w.Sub(w.slice.Get(s, 3), lo)
		if n.Max != nil {
			cp = w.Sub(opt(n.Max), lo)
		}
		return TV(w.slice.Make(w.slice.Get(s, 0), w.Add(w.slice.Get(s, 1), lo), w.Sub(hi, lo), cp))
	case *types.Basic:
		s := en.evalT(n.X)
		if lo == nil {
			lo = w.Int(0)
		}
		if hi == nil {
			hi = w.SLen(s)
		}
		return TV(App("ssub", SStr, s, lo, hi))
	}
	unsupportedf("slice expression %s in spec", exprString(n))
	return nil
}

func (en *Env) evalCall(n *ast.CallExpr) *SV {
	x, w := en.x, en.x.w
	// conversion?
	if tv, ok := en.info.Types[n.Fun]; ok && tv.IsType() {
		to := tv.Type
		from := en.typeOf(n.Args[0])
		v := en.eval(n.Args[0])
		if v.P != nil || v.Fn != nil {
			return v
		}
		return TV(en.convert(v.T, from, to))
	}
	fun := n.Fun
	if ix, ok := fun.(*ast.IndexExpr); ok { // explicit instantiation
		fun = ix.X
	}
	if p, ok := fun.(*ast.ParenExpr); ok {
		fun = p.X
	}
	var obj types.Object
	var recv ast.Expr
	switch f := fun.(type) {
	case *ast.Ident:
		obj = en.info.Uses[f]
	case *ast.SelectorExpr:
		if sel := en.info.Selections[f]; sel != nil {
			obj = sel.Obj()
			recv = f.X
		} else {
			obj = en.info.Uses[f.Sel]
		}
	}
	if b, ok := obj.(*types.Builtin); ok {
		switch b.Name() {
		case "len", "cap":
			a := en.evalT(n.Args[0])
			switch u := en.typeOf(n.Args[0]).Underlying().(type) {
			case *types.Slice:
				if b.Name() == "len" {
					return TV(w.slice.Get(a, 2))
				}
				return TV(w.slice.Get(a, 3))
			case *types.Basic:
				return TV(w.SLen(a))
			case *types.Array:
				return TV(w.Int(u.Len()))
			case *types.Map:
				_, _, _, md := x.mapComps(en.heap, u, en.typeOf(n.Args[0]))
				w.declFun("maplen", "(Int "+string(ArraySort(w.SortOf(u.Key()), SBool))+") "+string(w.IS))
				return TV(App("maplen", w.IS, a, Select(md, a)))
			}
		case "min", "max":
			a, c := en.evalT(n.Args[0]), en.evalT(n.Args[1])
			if a.Sort != c.Sort {
				if a.isLit {
					a = IntLitBig(a.lit, c.Sort)
				} else {
					c = en.coerce(c, a.Sort)
				}
			}
			lt := w.Lt(a, c)
			if b.Name() == "max" {
				return TV(Ite(lt, c, a))
			}
			return TV(Ite(lt, a, c))
		}
		unsupportedf("builtin %s in spec", b.Name())
	}
	fobj, _ := obj.(*types.Func)
	if fobj == nil {
		// call through a function-typed variable: not supported in specs
		unsupportedf("call of %s in spec", exprString(n.Fun))
	}
	// helpers and preds declared in the overlay
	if decl := x.eng.overlayDecl(fobj); decl != nil {
		return en.evalOverlayCall(fobj, decl, n)
	}
	// real function: pure symbolic evaluation
	fn := x.eng.prog.FuncValue(fobj)
	if fn != nil && x.unit != nil && x.unit.Con != nil {
		if vc := x.eng.contractSeenFrom(x.unit.Con.Pkg, fn); vc != nil && vc.View && vc.Pure {
			return en.viewCall(fn, vc, recv, n)
		}
	}
	if fn == nil {
		unsupportedf("no SSA for %s", fobj.FullName())
	}
	if fn.TypeParams().Len() > 0 {
		unsupportedf("generic function %s in spec", fobj.FullName())
	}
	var args []*SV
	if recv != nil {
		rv := en.eval(recv)
		// adjust receiver pointer-ness
		rt := en.typeOf(recv)
		want := fn.Signature.Recv().Type()
		_, rp := rt.Underlying().(*types.Pointer)
		_, wp := want.Underlying().(*types.Pointer)
		switch {
		case rp && !wp:
			ptr := rv.P
			if ptr == nil {
				ptr = x.ptrFromTerm(rv.T, rt)
			}
			rv = TV(en.load(ptr))
		case !rp && wp:
			rv = &SV{P: en.addrOf(recv)}
		}
		args = append(args, rv)
	}
	sig := fn.Signature
	np := sig.Params().Len()
	for i, a := range n.Args {
		if sig.Variadic() && i >= np-1 {
			unsupportedf("variadic call %s in spec", fobj.FullName())
		}
		v := en.eval(a)
		if v.T != nil {
			v = TV(en.coerceArg(v.T, sig.Params().At(i).Type()))
		}
		args = append(args, v)
	}
	return en.pureCall(fn, args)
}

func (en *Env) coerceArg(t *Term, to types.Type) *Term {
	s := en.x.w.SortOf(to)
	if t.Sort == s {
		return t
	}
	if t.isLit {
		return IntLitBig(t.lit, s)
	}
	return t
}

func (en *Env) convert(v *Term, from, to types.Type) *Term {
	x, w := en.x, en.x.w
	if _, toIface := to.Underlying().(*types.Interface); toIface {
		if _, fromIface := from.Underlying().(*types.Interface); !fromIface {
			// any(x): box the concrete value as the assignment to an interface would
			return w.iface.Make(w.TypeID(from), w.Box(from, v))
		}
		return v
	}
	fs, ts := w.SortOf(from), w.SortOf(to)
	if b, ok := from.(*types.Basic); ok && b.Info()&types.IsUntyped != 0 {
		if v.isLit {
			return IntLitBig(v.lit, ts)
		}
	}
	fb, fok := from.Underlying().(*types.Basic)
	tb, tok := to.Underlying().(*types.Basic)
	if fok && tok && fb.Info()&types.IsInteger != 0 && tb.Info()&types.IsInteger != 0 {
		if v.isLit {
			return IntLitBig(v.lit, ts)
		}
		return x.convInt(v, from, to)
	}
	if fok && tok && fb.Info()&types.IsInteger != 0 && tb.Info()&types.IsFloat != 0 {
		if w.Mode == "bv" {
			op := "(_ to_fp 11 53) RNE"
			if isUnsigned(from) {
				op = "(_ to_fp_unsigned 11 53) RNE"
			}
			return App(op, SF64, v)
		}
		return App("(_ to_fp 11 53) RNE", SF64, App("to_real", "Real", v))
	}
	if fs == ts {
		return v
	}
	unsupportedf("conversion %s -> %s in spec", from, to)
	return nil
}

// evalOverlayCall handles helper functions and preds.
func (en *Env) evalOverlayCall(fobj *types.Func, decl *ast.FuncDecl, n *ast.CallExpr) *SV {
	x, w := en.x, en.x.w
	name := fobj.Name()
	switch name {
	case "old":
		return en.with(en.old).eval(n.Args[0])
	case "marked":
		if en.markHeap == nil {
			unsupportedf("marked(...) on a path that did not pass the marked call")
		}
		return en.with(en.markHeap).eval(n.Args[0])
	case "iter":
		// the value at the head of the current iteration of the unit's loop 0 (after the
		// invariant was assumed): heap and locals of that moment
		if en.iterHeap == nil {
			unsupportedf("iter(...) outside loop 0 of the unit")
		}
		c := *en
		c.heap = en.iterHeap
		if en.fr != nil {
			f2 := *en.fr
			f2.cells = en.iterCells
			c.fr = &f2
		}
		return c.eval(n.Args[0])
	case "__imp":
		return TV(Imp(en.evalT(n.Args[0]), en.evalT(n.Args[1])))
	case "ite":
		c := en.evalT(n.Args[0])
		a, b := en.evalT(n.Args[1]), en.evalT(n.Args[2])
		if a.Sort != b.Sort {
			if a.isLit {
				a = IntLitBig(a.lit, b.Sort)
			} else {
				b = en.coerce(b, a.Sort)
			}
		}
		return TV(Ite(c, a, b))
	case "__forall", "__exists":
		fl, ok := n.Args[0].(*ast.FuncLit)
		if !ok {
			unsupportedf("quantifier needs a function literal")
		}
		sub := *en
		sub.bound = map[string]*Term{}
		for k, v := range en.bound {
			sub.bound[k] = v
		}
		var vars []*Term
		for _, f := range fl.Type.Params.List {
			t := en.typeOf(f.Type)
			for _, nm := range f.Names {
				x.w.seq++
				v := Atom(fmt.Sprintf("%s!q%d", nm.Name, x.w.seq), w.SortOf(t))
				vars = append(vars, v)
				sub.bound[nm.Name] = v
			}
		}
		if len(fl.Body.List) != 1 {
			unsupportedf("quantifier body must be a single return")
		}
		ret := fl.Body.List[0].(*ast.ReturnStmt)
		body := sub.evalT(ret.Results[0])
		if name == "__forall" {
			return TV(Forall(vars, body))
		}
		return TV(Exists(vars, body))
	case "elems":
		return en.eval(n.Args[0])
	case "arr":
		return TV(en.intOfRef(w.slice.Get(en.evalT(n.Args[0]), 0)))
	case "off":
		return TV(w.slice.Get(en.evalT(n.Args[0]), 1))
	case "ref":
		v := en.eval(n.Args[0])
		return TV(en.intOfRef(x.svTerm(v)))
	case "fresh":
		v := x.svTerm(en.eval(n.Args[0]))
		if v.Sort == SSlc {
			v = w.slice.Get(v, 0)
		}
		return TV(And(App("<=", SBool, en.old.alloc, v), App("<", SBool, v, en.heap.alloc)))
	case "allocated":
		v := x.svTerm(en.eval(n.Args[0]))
		if v.Sort == SSlc {
			v = w.slice.Get(v, 0)
		}
		return TV(And(App("<", SBool, IntLit(0, SInt), v), App("<", SBool, v, en.heap.alloc)))
	case "same":
		return TV(Eq(en.evalT(n.Args[0]), en.evalT(n.Args[1])))
	case "dyntype":
		return TV(en.intOfRef(w.iface.Get(en.evalT(n.Args[0]), 0)))
	case "typeid":
		ix := n.Fun.(*ast.IndexExpr)
		return TV(en.intOfRef(w.TypeID(en.typeOf(ix.Index))))
	case "mapdom":
		mt := en.typeOf(n.Args[0])
		_, _, _, md := x.mapComps(en.heap, mt.Underlying().(*types.Map), mt)
		mref := en.evalT(n.Args[0])
		return TV(And(Not(Eq(mref, IntLit(0, SInt))), Select(Select(md, mref), en.evalT(n.Args[1]))))
	case "mapkept":
		// the map m has exactly the entries it had in the old state (quantifier-free row equality)
		mt := en.typeOf(n.Args[0])
		mu := mt.Underlying().(*types.Map)
		_, mvNow, _, mdNow := x.mapComps(en.heap, mu, mt)
		_, mvOld, _, mdOld := x.mapComps(en.old, mu, mt)
		mref := en.evalT(n.Args[0])
		return TV(And(Eq(Select(mvNow, mref), Select(mvOld, mref)), Eq(Select(mdNow, mref), Select(mdOld, mref))))
	case "mapof":
		return en.eval(n.Args[0])
	case "fnid":
		v := en.eval(n.Args[0])
		return TV(en.intOfRef(x.svTerm(v)))
	case "strat":
		b := App("sat", w.byteSort(), en.evalT(n.Args[0]), en.coerce(en.evalT(n.Args[1]), w.IS))
		if w.Mode == "bv" {
			return TV(App("(_ zero_extend 56)", SBV64, b))
		}
		return TV(b)
	case "bits":
		st := en.st
		if st == nil {
			st = &State{heap: en.heap, known: map[string]bool{}}
		}
		return TV(x.reinterpret(st, en.evalT(n.Args[0]), types.Typ[types.Float64], types.Typ[types.Uint64]))
	case "isnan":
		return TV(App("fp.isNaN", SBool, en.evalT(n.Args[0])))
	case "field":
		xt := en.typeOf(n.Args[0])
		if pt, ok := xt.Underlying().(*types.Pointer); ok {
			// pointer to a struct: load of the named field from the heap
			if pst, ok := pt.Elem().Underlying().(*types.Struct); ok {
				tvp := en.info.Types[n.Args[1]]
				if tvp.Value == nil {
					unsupportedf("field() needs a constant field name")
				}
				fname := constant.StringVal(tvp.Value)
				r := en.evalT(n.Args[0])
				for i := 0; i < pst.NumFields(); i++ {
					if pst.Field(i).Name() == fname {
						_, c := x.fieldComp(en.heap, pt.Elem(), i)
						v := Select(c, r)
						if en.st != nil {
							// a value read from the heap is a valid value of its type (slice header well-formed
							// and allocated, ...), as for every other load
							en.validIn(v, pst.Field(i).Type())
						}
						return TV(v)
					}
				}
				unsupportedf("field %s not in %s", fname, xt)
			}
		}
		stt, ok := xt.Underlying().(*types.Struct)
		if !ok {
			unsupportedf("field() on non-struct %s", xt)
		}
		tv := en.info.Types[n.Args[1]]
		if tv.Value == nil {
			unsupportedf("field() needs a constant field name")
		}
		fname := constant.StringVal(tv.Value)
		v := en.evalT(n.Args[0])
		for i := 0; i < stt.NumFields(); i++ {
			if stt.Field(i).Name() == fname {
				return TV(w.RecordOfType(xt).Get(v, i))
			}
		}
		unsupportedf("field %s not in %s", fname, xt)
	case "bcmk":
		r := w.records["BC"]
		if r == nil {
			unsupportedf("bcmk used without `abstract bytecode.Type`")
		}
		args := make([]*Term, 7)
		for i := range args {
			args[i] = en.coerce(en.evalT(n.Args[i]), w.IS)
		}
		return TV(r.Make(args...))
	case "bcop", "bck", "bca":
		r := w.records["BC"]
		if r == nil {
			unsupportedf("%s used without `abstract bytecode.Type`", name)
		}
		v := en.evalT(n.Args[0])
		if name == "bcop" {
			return TV(r.Get(v, 0))
		}
		sel := en.evalT(n.Args[1])
		base := 1
		if name == "bca" {
			base = 2
		}
		if sel.isLit {
			return TV(r.Get(v, base+2*int(sel.lit.Int64())))
		}
		return TV(Ite(Eq(sel, w.Int(0)), r.Get(v, base), Ite(Eq(sel, w.Int(1)), r.Get(v, base+2), r.Get(v, base+4))))
	case "eqv":
		return TV(Eq(en.evalT(n.Args[0]), en.evalT(n.Args[1])))
	case "imhas":
		d := x.compOf(en.heap, "IMD", ArraySort(SInt, ArraySort(w.IS, SBool)))
		return TV(Select(Select(d, en.evalT(n.Args[0])), en.coerce(en.evalT(n.Args[1]), w.IS)))
	case "imget":
		ix := n.Fun.(*ast.IndexExpr)
		vt := en.typeOf(ix.Index)
		v := x.compOf(en.heap, "IMV", ArraySort(SInt, ArraySort(w.IS, w.SortOf(vt))))
		return TV(Select(Select(v, en.evalT(n.Args[0])), en.coerce(en.evalT(n.Args[1]), w.IS)))
	case "atoiOK":
		w.declFun("atoi_err", "(Str) Iface")
		return TV(Eq(App("atoi_err", SIfc, en.evalT(n.Args[0])), w.Zero(types.Universe.Lookup("error").Type())))
	case "parseFloatOK":
		w.declFun("pfloat_err", "(Str) Iface")
		return TV(Eq(App("pfloat_err", SIfc, en.evalT(n.Args[0])), w.Zero(types.Universe.Lookup("error").Type())))
	case "fsame":
		return TV(Eq(en.evalT(n.Args[0]), en.evalT(n.Args[1])))
	case "fst2", "snd2":
		v := en.eval(n.Args[0])
		if len(v.Tuple) != 2 {
			unsupportedf("%s needs a two-valued call", name)
		}
		if name == "fst2" {
			return v.Tuple[0]
		}
		return v.Tuple[1]
	case "feq":
		return TV(App("fp.eq", SBool, en.evalT(n.Args[0]), en.evalT(n.Args[1])))
	}
	// ghost function with a model definition (refinement unit)
	if p := x.eng.ghostPred(fobj); p != nil && x.refine != nil {
		if m := x.refine.con.Models[name]; m != nil {
			var extra []*Term
			for _, a := range n.Args[1:] {
				extra = append(extra, x.svTerm(en.eval(a)))
			}
			t, _ := x.evalModelWith(m, x.refine.con, en.heap, en.old, en.st, extra)
			return TV(t)
		}
	}
	// ghost (uninterpreted, heap-dependent) function
	if p := x.eng.ghostPred(fobj); p != nil {
		if len(n.Args) < 1 || len(n.Args) > 2 {
			unsupportedf("ghost function %s must take one or two arguments", name)
		}
		sig := fobj.Type().(*types.Signature)
		key := en.evalAs(n.Args[0], sig.Params().At(0).Type())
		rs := w.SortOf(sig.Results().At(0).Type())
		comp := "GH!" + fobj.Pkg().Name() + "." + name
		if len(n.Args) == 1 {
			c := x.compOf(en.heap, comp, ArraySort(key.Sort, rs))
			return TV(Select(c, key))
		}
		k2 := en.coerceArg(x.svTerm(en.eval(n.Args[1])), sig.Params().At(1).Type())
		c := x.compOf(en.heap, comp, ArraySort(key.Sort, ArraySort(k2.Sort, rs)))
		return TV(Select(Select(c, key), k2))
	}
	// fun: heap-independent, emitted once as an SMT defined function
	if fp := x.eng.funPreds[fobj]; fp != nil {
		return en.evalFunCall(fobj, decl, n)
	}
	// pred: inline the body
	if decl.Body == nil || len(decl.Body.List) != 1 {
		unsupportedf("pred %s has no single-return body", name)
	}
	ret, ok := decl.Body.List[0].(*ast.ReturnStmt)
	if !ok {
		unsupportedf("pred %s body is not a return", name)
	}
	if en.depth > 12 {
		unsupportedf("pred recursion too deep at %s", name)
	}
	sub := &Env{x: x, vars: map[string]*SV{}, bound: map[string]*Term{}, heap: en.heap, old: en.old, st: en.st, info: en.info, depth: en.depth + 1, iterHeap: en.iterHeap, iterCells: en.iterCells, markHeap: en.markHeap}
	// bound variables of the caller are not visible by name inside the pred (its parameters shadow
	// them); they are kept under a private name so that "is a quantifier open" checks still see them
	for k, v := range en.bound {
		sub.bound["\x00"+k] = v
	}
	i := 0
	sig := fobj.Type().(*types.Signature)
	for _, f := range decl.Type.Params.List {
		for _, nm := range f.Names {
			v := en.eval(n.Args[i])
			if v.T != nil {
				v = TV(en.evalAs(n.Args[i], sig.Params().At(i).Type()))
			}
			sub.vars[nm.Name] = v
			i++
		}
	}
	return sub.eval(ret.Results[0])
}

// intOfRef converts an Int-sorted reference to the mode's int sort (spec
// helpers such as arr() return Go ints).
func (en *Env) intOfRef(t *Term) *Term {
	w := en.x.w
	if w.IS == SInt {
		return t
	}
	if t.isLit {
		return IntLitBig(t.lit, w.IS)
	}
	return App("(_ int2bv 64)", w.IS, t)
}

// pureCall evaluates a real function symbolically without side effects and
// merges its paths into one term.
func (en *Env) pureCall(fn *ssa.Function, args []*SV) *SV {
	x := en.x
	type outcome struct {
		pc  []*Term
		res *SV
	}
	var outs []outcome
	st := &State{heap: en.heap.clone(), known: map[string]bool{}}
	base := 0
	x.runFunction(fn, st, args, nil, en.depth+1, true, func(st2 *State, res *SV) {
		outs = append(outs, outcome{pc: append([]*Term(nil), st2.pc[base:]...), res: res})
	})
	if len(outs) == 1 && en.st != nil && len(en.bound) == 0 {
		for _, a := range outs[0].pc {
			if !strings.Contains(a.String(), "!q") {
				en.st.assume(a)
			}
		}
	}
	if len(outs) == 0 {
		// always panics: unconstrained
		return x.freshOfType(&State{heap: en.heap, known: map[string]bool{}}, "undef."+fn.Name(), fn.Signature.Results())
	}
	merge := func(get func(*SV) *SV) *SV {
		last := get(outs[len(outs)-1].res)
		if last.T == nil {
			if len(outs) == 1 {
				return last
			}
			unsupportedf("pure call %s returns non-term on several paths", fn)
		}
		acc := last.T
		for i := len(outs) - 2; i >= 0; i-- {
			acc = Ite(And(outs[i].pc...), get(outs[i].res).T, acc)
		}
		return TV(x.w.Define("pc."+fn.Name(), acc))
	}
	first := outs[0].res
	if len(first.Tuple) > 0 {
		r := &SV{}
		for i := range first.Tuple {
			i := i
			r.Tuple = append(r.Tuple, merge(func(s *SV) *SV { return s.Tuple[i] }))
		}
		return r
	}
	if first.T == nil && first.P == nil && first.Fn == nil {
		return first
	}
	return merge(func(s *SV) *SV { return s })
}

// modifiesLocs evaluates the modifies clauses of a contract in the pre-state.
func (x *Exec) modifiesLocs(con *Contract, env *Env, st *State) []modLoc {
	var locs []modLoc
	for _, c := range con.Modifies {
		e2 := *env
		e2.st = st
		e2.info = x.eng.infoFor(c)
		lit, ok := c.Expr.(*ast.CompositeLit)
		if !ok {
			unsupportedf("modifies clause %s malformed", c.GoName)
		}
		for _, el := range lit.Elts {
			locs = append(locs, e2.modLocsOf(el)...)
		}
	}
	return locs
}

func (en *Env) modLocsOf(e ast.Expr) []modLoc {
	x, w := en.x, en.x.w
	switch n := e.(type) {
	case *ast.ParenExpr:
		return en.modLocsOf(n.X)
	case *ast.SelectorExpr:
		p := en.addrOf(n)
		if p.Ref != nil && p.Elem == nil && len(p.Path) >= 1 && p.Path[0].Index == nil {
			name, _ := x.fieldComp(en.heap, p.Base, p.Path[0].Field)
			return []modLoc{{name, p.Ref}}
		}
	case *ast.StarExpr:
		pv := en.eval(n.X)
		pt := en.typeOf(n.X).Underlying().(*types.Pointer)
		if pv.P != nil && pv.P.Ref != nil && pv.P.Elem == nil && len(pv.P.Path) >= 1 && pv.P.Path[0].Index == nil {
			// pointer to a field of a heap object: the whole field is the location
			name, _ := x.fieldComp(en.heap, pv.P.Base, pv.P.Path[0].Field)
			return []modLoc{{name, pv.P.Ref}}
		}
		r := x.svTerm(pv)
		if st, ok := pt.Elem().Underlying().(*types.Struct); ok {
			var out []modLoc
			for i := 0; i < st.NumFields(); i++ {
				name, _ := x.fieldComp(en.heap, pt.Elem(), i)
				out = append(out, modLoc{name, r})
			}
			return out
		}
		if at, ok := pt.Elem().Underlying().(*types.Array); ok {
			name, _ := x.elemComp(en.heap, at.Elem())
			return []modLoc{{name, r}}
		}
		name, _ := x.pointeeComp(en.heap, pt.Elem())
		return []modLoc{{name, r}}
	case *ast.CallExpr:
		if id, ok := n.Fun.(*ast.Ident); ok {
			switch id.Name {
			case "allelems":
				st := en.typeOf(n.Args[0]).Underlying().(*types.Slice)
				name, _ := x.elemComp(en.heap, st.Elem())
				return []modLoc{{name, nil}}
			case "elems":
				st := en.typeOf(n.Args[0]).Underlying().(*types.Slice)
				s := en.evalT(n.Args[0])
				name, _ := x.elemComp(en.heap, st.Elem())
				return []modLoc{{name, w.slice.Get(s, 0)}}
			case "mapof":
				mt := en.typeOf(n.Args[0])
				vn, _, dn, _ := x.mapComps(en.heap, mt.Underlying().(*types.Map), mt)
				m := en.evalT(n.Args[0])
				return []modLoc{{vn, m}, {dn, m}}
			case "imrow":
				m := en.evalT(n.Args[0])
				if pt, ok := en.typeOf(n.Args[0]).(*types.Pointer); ok {
					if nt, ok := pt.Elem().(*types.Named); ok && nt.TypeArgs().Len() == 2 {
						x.imVal = nt.TypeArgs().At(1)
					}
				}
				if x.imVal == nil {
					unsupportedf("imrow: value type of the map unknown")
				}
				x.intmapComps(en.heap, x.imVal)
				return []modLoc{{"IMD", m}, {"IMV", m}}
			case "old":
				return en.with(en.old).modLocsOf(n.Args[0])
			}
			// ghost function location
			if fobj, ok := en.info.Uses[id].(*types.Func); ok {
				if strings.HasSuffix(id.Name, "_row") {
					if base, ok := fobj.Pkg().Scope().Lookup(strings.TrimSuffix(id.Name, "_row")).(*types.Func); ok && x.eng.ghostPred(base) != nil {
						key := x.svTerm(en.eval(n.Args[0]))
						sig := base.Type().(*types.Signature)
						rs := ArraySort(w.SortOf(sig.Params().At(1).Type()), w.SortOf(sig.Results().At(0).Type()))
						comp := "GH!" + base.Pkg().Name() + "." + base.Name()
						x.compOf(en.heap, comp, ArraySort(key.Sort, rs))
						return []modLoc{{comp, key}}
					}
				}
				if p := x.eng.ghostPred(fobj); p != nil {
					key := x.svTerm(en.eval(n.Args[0]))
					sig := fobj.Type().(*types.Signature)
					rs := w.SortOf(sig.Results().At(0).Type())
					comp := "GH!" + fobj.Pkg().Name() + "." + id.Name
					if sig.Params().Len() == 2 {
						rs = ArraySort(w.SortOf(sig.Params().At(1).Type()), rs)
					}
					x.compOf(en.heap, comp, ArraySort(key.Sort, rs))
					return []modLoc{{comp, key}}
				}
			}
		}
	}
	unsupportedf("modifies location %s", exprString(e))
	return nil
}

// staticModComps lists component names a modifies clause can touch (types only).
func (e *Engine) staticModComps(con *Contract) []string {
	var out []string
	seen := map[string]bool{}
	add := func(s string) {
		if !seen[s] {
			seen[s] = true
			out = append(out, s)
		}
	}
	for _, c := range con.Modifies {
		info := e.infoFor(c)
		lit, ok := c.Expr.(*ast.CompositeLit)
		if !ok {
			continue
		}
		for _, el := range lit.Elts {
			e.staticLocComps(el, info, add)
		}
	}
	return out
}

func (e *Engine) staticLocComps(ex ast.Expr, info *types.Info, add func(string)) {
	switch n := ex.(type) {
	case *ast.ParenExpr:
		e.staticLocComps(n.X, info, add)
	case *ast.SelectorExpr:
		sel := info.Selections[n]
		if sel == nil {
			return
		}
		bt := info.Types[n.X].Type
		if pt, ok := bt.Underlying().(*types.Pointer); ok {
			bt = pt.Elem()
		}
		if _, ok := bt.Underlying().(*types.Struct); ok {
			add(fieldCompName(bt, sel.Index()[0]))
		}
	case *ast.StarExpr:
		pt, ok := info.Types[n.X].Type.Underlying().(*types.Pointer)
		if !ok {
			return
		}
		eff := &effects{comps: map[string]bool{}}
		e.typeComps(pt.Elem(), eff)
		for c := range eff.comps {
			add(c)
		}
	case *ast.CallExpr:
		if id, ok := n.Fun.(*ast.Ident); ok {
			switch id.Name {
			case "elems", "allelems":
				if st, ok := info.Types[n.Args[0]].Type.Underlying().(*types.Slice); ok {
					add("E!" + typeKey(st.Elem()))
				}
			case "mapof":
				k := mapTypeKey(info.Types[n.Args[0]].Type)
				add("MV!" + k)
				add("MD!" + k)
			case "imrow":
				add("IMD")
				add("IMV")
			case "old":
				e.staticLocComps(n.Args[0], info, add)
			default:
				if fobj, ok := info.Uses[id].(*types.Func); ok {
					add("GH!" + fobj.Pkg().Name() + "." + strings.TrimSuffix(id.Name, "_row"))
				}
			}
		}
	}
}

var _ = strings.TrimSpace

// localByName resolves name or name__N (N-th declaration of that name) to the
// SSA local cell.
func localByName(fn *ssa.Function, name string) *ssa.Alloc {
	want := 1
	base := name
	if i := strings.LastIndex(name, "__"); i > 0 {
		var n int
		if _, err := fmt.Sscanf(name[i+2:], "%d", &n); err == nil && n >= 2 {
			want, base = n, name[:i]
		}
	}
	k := 0
	for _, l := range fn.Locals {
		if l.Comment == base {
			k++
			if k == want {
				return l
			}
		}
	}
	return nil
}

// viewCall evaluates a call to a pure function that has a (trusted) view
// contract of the form `ensures result == EXPR`: the result is a fresh value
// constrained by the ensures clauses.
func (en *Env) viewCall(fn *ssa.Function, vc *Contract, recv ast.Expr, n *ast.CallExpr) *SV {
	x := en.x
	var args []*SV
	if recv != nil {
		rv := en.eval(recv)
		if rs := fn.Signature.Recv(); rs != nil {
			if _, isPtr := rs.Type().Underlying().(*types.Pointer); !isPtr {
				if pt, ok := en.typeOf(recv).Underlying().(*types.Pointer); ok {
					// value method called through a pointer: the receiver is the pointee
					if rv.P != nil {
						rv = TV(en.load(rv.P))
					} else {
						rv = TV(en.load(&Ptr{Ref: x.svTerm(rv), Base: pt.Elem()}))
					}
				}
			}
		}
		args = append(args, rv)
	}
	sig := fn.Signature
	for i, a := range n.Args {
		v := en.eval(a)
		if v.T != nil && i < sig.Params().Len() {
			v = TV(en.coerceArg(v.T, sig.Params().At(i).Type()))
		}
		args = append(args, v)
	}
	// direct definition: a single clause `result == E` is inlined as E
	if len(vc.Ensures) == 1 {
		if be, ok := vc.Ensures[0].Expr.(*ast.BinaryExpr); ok && be.Op == token.EQL {
			if id, ok := be.X.(*ast.Ident); ok && len(vc.ResultNames) == 1 && id.Name == vc.ResultNames[0] {
				sub := &Env{x: x, vars: map[string]*SV{}, bound: en.bound, heap: en.heap, old: en.old, st: en.st, info: x.eng.infoFor(vc.Ensures[0]), depth: en.depth + 1}
				for i, nm := range vc.ParamNames {
					if i < len(args) {
						sub.vars[nm] = args[i]
					}
				}
				return sub.eval(be.Y)
			}
		}
	}
	// no definition: the pure function is an uninterpreted function of its arguments
	if len(vc.Ensures) == 0 {
		return x.viewApp(fn, args)
	}
	unsupportedf("view contract of %s is not of the form `ensures result == E`", fn)
	return nil
}

// evalFunCall translates a `fun` (heap-independent spec function) into an SMT define-fun (once per
// world) and returns its application.
func (en *Env) evalFunCall(fobj *types.Func, decl *ast.FuncDecl, n *ast.CallExpr) *SV {
	x, w := en.x, en.x.w
	name := "sf_" + fobj.Pkg().Name() + "_" + fobj.Name()
	sig := fobj.Type().(*types.Signature)
	rs := w.SortOf(sig.Results().At(0).Type())
	if _, ok := w.funs[name]; !ok {
		ret, ok := decl.Body.List[0].(*ast.ReturnStmt)
		if !ok {
			unsupportedf("fun %s body is not a return", fobj.Name())
		}
		// evaluate the body with formal parameters as SMT variables; an empty heap makes
		// any heap access fail loudly (a fun must not depend on the heap)
		sub := &Env{x: x, vars: map[string]*SV{}, bound: map[string]*Term{}, heap: &Heap{comps: map[string]*Term{}, alloc: IntLit(0, SInt)}, old: nil, st: nil, info: en.info, depth: en.depth + 1}
		var ps []string
		i := 0
		for _, f := range decl.Type.Params.List {
			for _, nm := range f.Names {
				s := w.SortOf(sig.Params().At(i).Type())
				v := Atom("p!"+nm.Name, s)
				sub.bound[nm.Name] = v
				ps = append(ps, "("+v.Op+" "+string(s)+")")
				i++
			}
		}
		before := len(sub.heap.comps)
		body := x.svTerm(sub.eval(ret.Results[0]))
		if len(sub.heap.comps) != before {
			unsupportedf("fun %s reads the heap; use pred", fobj.Name())
		}
		w.defineFun(name, "("+strings.Join(ps, " ")+") "+string(rs)+" "+body.String())
	}
	var args []*Term
	for i, a := range n.Args {
		t := en.evalT(a)
		args = append(args, en.coerceArg(t, sig.Params().At(i).Type()))
	}
	return TV(App(name, rs, args...))
}


var allocCache = map[*ssa.Function][]*ssa.Alloc{}
var allocMu sync.Mutex

// allAllocs: the named allocations of fn, stack and heap (variables whose address escapes).
func allAllocs(fn *ssa.Function) []*ssa.Alloc {
	allocMu.Lock()
	defer allocMu.Unlock()
	if a, ok := allocCache[fn]; ok {
		return a
	}
	var out []*ssa.Alloc
	for _, b := range fn.Blocks {
		for _, in := range b.Instrs {
			if a, ok := in.(*ssa.Alloc); ok && a.Comment != "" {
				out = append(out, a)
			}
		}
	}
	allocCache[fn] = out
	return out
}


// viewApp: application of a pure function known only through a view contract without
// postconditions - an uninterpreted function of its arguments (the same one at Go call sites and in
// specifications).
func (x *Exec) viewApp(fn *ssa.Function, args []*SV) *SV {
	var ts []*Term
	sig := "("
	for _, a := range args {
		t := x.svTerm(a)
		ts = append(ts, t)
		sig += string(t.Sort) + " "
	}
	sig += ")"
	mk := func(name string, t types.Type) *SV {
		so := x.w.SortOf(t)
		x.w.declFun(name, sig+" "+string(so))
		return TV(App(name, so, ts...))
	}
	base := "vw!" + smtName(x.eng.fnKey(fn))
	res := fn.Signature.Results()
	if res.Len() == 0 {
		return &SV{}
	}
	if res.Len() == 1 {
		return mk(base, res.At(0).Type())
	}
	out := &SV{}
	for i := 0; i < res.Len(); i++ {
		out.Tuple = append(out.Tuple, mk(fmt.Sprintf("%s!%d", base, i), res.At(i).Type()))
	}
	return out
}
