package main

// World: per-verification-unit symbol table, sort mapping and declarations.

import (
	"fmt"
	"go/constant"
	"go/types"
	"math/big"
	"strings"
)

type Def struct {
	Name string
	Sort Sort
	Body string
	Seq  int
	T    *Term
}

type World struct {
	Mode string // "int" or "bv"
	IS   Sort   // sort of Go int in this mode

	records  map[Sort]*Record
	recOrder []*Record
	recByKey map[string]*Record

	consts     map[string]Sort // declared constants
	constOrder []string
	funs       map[string]string // uninterpreted function declarations, by name
	funOrder   []string
	defFuns    map[string]string // defined functions: name -> "(params) Sort body"
	defs       map[string]*Def
	defOrder   []*Def
	axioms     []*Term
	boxTypes   map[string]types.Type // boxed (non-pointer-shaped) types seen in type assertions
	seq        int

	typeIDs  map[string]int
	typeByID []types.Type
	strLits  map[string]*Term
	fnIDs    map[string]*Term

	slice *Record
	iface *Record
	abstract map[string]*Record // named type key -> record view
	qfOnly   bool

	unsupported []string
}

func NewWorld(mode string) *World {
	w := &World{Mode: mode,
		records: map[Sort]*Record{}, recByKey: map[string]*Record{},
		consts: map[string]Sort{}, funs: map[string]string{}, defs: map[string]*Def{}, defFuns: map[string]string{},
		typeIDs: map[string]int{}, strLits: map[string]*Term{}, fnIDs: map[string]*Term{}}
	if mode == "bv" {
		w.IS = SBV64
	} else {
		w.IS = SInt
	}
	w.slice = &Record{Name: SSlc, Ctor: "mk_Slice", Fields: []Field{{"s_arr", SInt}, {"s_off", w.IS}, {"s_len", w.IS}, {"s_cap", w.IS}}}
	w.addRecord(w.slice)
	w.iface = &Record{Name: SIfc, Ctor: "mk_Iface", Fields: []Field{{"i_tag", SInt}, {"i_val", SInt}}}
	w.addRecord(w.iface)
	// strings
	w.declFun("slen", "(Str) "+string(w.IS))
	w.declFun("sat", "(Str "+string(w.IS)+") "+string(w.byteSort()))
	w.declFun("sconcat", "(Str Str) Str")
	w.declFun("ssub", "(Str "+string(w.IS)+" "+string(w.IS)+") Str")
	w.declFun("sbyte", "("+string(w.byteSort())+") Str")
	s, t := Atom("s", SStr), Atom("t", SStr)
	i, a, b := Atom("i", w.IS), Atom("a", w.IS), Atom("b", w.IS)
	zero := w.Int(0)
	w.axioms = append(w.axioms,
		Forall([]*Term{s}, w.Le(zero, w.SLen(s)), []*Term{w.SLen(s)}),
		Forall([]*Term{s, t}, Eq(w.SLen(App("sconcat", SStr, s, t)), w.Add(w.SLen(s), w.SLen(t))), []*Term{App("sconcat", SStr, s, t)}),
		Forall([]*Term{s, a, b}, Imp(And(w.Le(zero, a), w.Le(a, b), w.Le(b, w.SLen(s))),
			Eq(w.SLen(App("ssub", SStr, s, a, b)), w.Sub(b, a))), []*Term{App("ssub", SStr, s, a, b)}),
		Forall([]*Term{s, a, b, i}, Imp(And(w.Le(zero, a), w.Le(a, b), w.Le(b, w.SLen(s)), w.Le(zero, i), w.Lt(i, w.Sub(b, a))),
			Eq(App("sat", w.byteSort(), App("ssub", SStr, s, a, b), i), App("sat", w.byteSort(), s, w.Add(a, i)))),
			[]*Term{App("sat", w.byteSort(), App("ssub", SStr, s, a, b), i)}),
		Forall([]*Term{s, t, i}, Imp(And(w.Le(zero, i), w.Lt(i, w.SLen(s))),
			Eq(App("sat", w.byteSort(), App("sconcat", SStr, s, t), i), App("sat", w.byteSort(), s, i))),
			[]*Term{App("sat", w.byteSort(), App("sconcat", SStr, s, t), i)}),
		Forall([]*Term{s, t, i}, Imp(And(w.Le(w.SLen(s), i), w.Lt(i, w.Add(w.SLen(s), w.SLen(t)))),
			Eq(App("sat", w.byteSort(), App("sconcat", SStr, s, t), i), App("sat", w.byteSort(), t, w.Sub(i, w.SLen(s))))),
			[]*Term{App("sat", w.byteSort(), App("sconcat", SStr, s, t), i)}),
		// s[0:len] == s ; s[a:a] == ""
		Forall([]*Term{s}, Eq(App("ssub", SStr, s, zero, w.SLen(s)), s), []*Term{App("ssub", SStr, s, zero, w.SLen(s))}),
		// split/concat identity
		Forall([]*Term{s, a}, Imp(And(w.Le(zero, a), w.Le(a, w.SLen(s))),
			Eq(App("sconcat", SStr, App("ssub", SStr, s, zero, a), App("ssub", SStr, s, a, w.SLen(s))), s)),
			[]*Term{App("ssub", SStr, s, zero, a), App("ssub", SStr, s, a, w.SLen(s))}),
	)
	bt := Atom("c", w.byteSort())
	var ascii *Term
	if w.Mode == "bv" {
		ascii = App("bvult", SBool, bt, IntLit(0x80, SBV8))
	} else {
		ascii = And(w.Le(zero, bt), w.Lt(bt, w.Int(0x80)))
	}
	w.axioms = append(w.axioms,
		// string(b) of a byte is the UTF-8 encoding of the code point b: one byte only below 0x80,
		// two bytes (0xC2/0xC3, then a continuation byte) from 0x80 on
		Forall([]*Term{bt}, And(
			Imp(ascii, And(Eq(w.SLen(App("sbyte", SStr, bt)), w.Int(1)), Eq(App("sat", w.byteSort(), App("sbyte", SStr, bt), zero), bt))),
			Imp(Not(ascii), Eq(w.SLen(App("sbyte", SStr, bt)), w.Int(2)))), []*Term{App("sbyte", SStr, bt)}))
	return w
}

func (w *World) byteSort() Sort {
	if w.Mode == "bv" {
		return SBV8
	}
	return SInt
}

func (w *World) addRecord(r *Record) {
	w.records[r.Name] = r
	w.recOrder = append(w.recOrder, r)
}

func (w *World) declFun(name, sig string) {
	if _, ok := w.funs[name]; ok {
		return
	}
	w.funs[name] = sig
	w.funOrder = append(w.funOrder, name)
}

// defineFun registers (define-fun name (params) sort body); it shares the ordering of declFun so
// that later functions may refer to earlier ones.
func (w *World) defineFun(name, sig string) {
	if _, ok := w.funs[name]; ok {
		return
	}
	w.funs[name] = sig
	w.defFuns[name] = sig
	w.funOrder = append(w.funOrder, name)
}

func (w *World) declConst(name string, s Sort) *Term {
	if old, ok := w.consts[name]; ok {
		if old != s {
			panic("redeclared const " + name + " with different sort")
		}
		return Atom(name, s)
	}
	w.consts[name] = s
	w.constOrder = append(w.constOrder, name)
	return Atom(name, s)
}

func (w *World) Fresh(prefix string, s Sort) *Term {
	w.seq++
	name := fmt.Sprintf("%s!%d", smtName(prefix), w.seq)
	return w.declConst(name, s)
}

// Define introduces a named abbreviation for t when it is large.
func (w *World) Define(prefix string, t *Term) *Term {
	if len(t.String()) < 160 || strings.Contains(t.String(), "!q") || strings.Contains(t.String(), "p!") {
		return t // small, or mentions a quantifier-bound variable
	}
	w.seq++
	d := &Def{Name: fmt.Sprintf("%s!d%d", smtName(prefix), w.seq), Sort: t.Sort, Body: t.String(), Seq: w.seq, T: t}
	w.defs[d.Name] = d
	w.defOrder = append(w.defOrder, d)
	a := Atom(d.Name, t.Sort)
	a.Def = t
	return a
}

// ---------------------------------------------------------------------------
// integer helpers (mode dependent)

func (w *World) Int(v int64) *Term { return IntLit(v, w.IS) }

func (w *World) arith(opInt, opBV string, a, b *Term) *Term {
	if a.Sort != b.Sort {
		panic(fmt.Sprintf("arith sort mismatch %s %s:%s %s:%s", opInt, a, a.Sort, b, b.Sort))
	}
	if a.Sort == SInt {
		return App(opInt, SInt, a, b)
	}
	return App(opBV, a.Sort, a, b)
}

func (w *World) Add(a, b *Term) *Term {
	if a.isLit && b.isLit {
		return IntLitBig(new(big.Int).Add(a.lit, b.lit), a.Sort)
	}
	if b.isLit && b.lit.Sign() == 0 {
		return a
	}
	if a.isLit && a.lit.Sign() == 0 {
		return b
	}
	return w.arith("+", "bvadd", a, b)
}
func (w *World) Sub(a, b *Term) *Term {
	if a.isLit && b.isLit {
		return IntLitBig(new(big.Int).Sub(a.lit, b.lit), a.Sort)
	}
	if b.isLit && b.lit.Sign() == 0 {
		return a
	}
	return w.arith("-", "bvsub", a, b)
}
func (w *World) Mul(a, b *Term) *Term {
	if a.isLit && b.isLit {
		return IntLitBig(new(big.Int).Mul(a.lit, b.lit), a.Sort)
	}
	return w.arith("*", "bvmul", a, b)
}

func (w *World) cmp(opInt, opBVs, opBVu string, signed bool, a, b *Term) *Term {
	if a.Sort != b.Sort {
		panic(fmt.Sprintf("cmp sort mismatch %s:%s %s:%s", a, a.Sort, b, b.Sort))
	}
	if a.Sort == SInt {
		if a.isLit && b.isLit {
			c := a.lit.Cmp(b.lit)
			switch opInt {
			case "<":
				return BoolLit(c < 0)
			case "<=":
				return BoolLit(c <= 0)
			}
		}
		return App(opInt, SBool, a, b)
	}
	if signed {
		return App(opBVs, SBool, a, b)
	}
	return App(opBVu, SBool, a, b)
}

// signed comparisons (Go int)
func (w *World) Lt(a, b *Term) *Term { return w.cmp("<", "bvslt", "bvult", true, a, b) }
func (w *World) Le(a, b *Term) *Term { return w.cmp("<=", "bvsle", "bvule", true, a, b) }
func (w *World) LtU(a, b *Term) *Term {
	return w.cmp("<", "bvslt", "bvult", false, a, b)
}
func (w *World) LeU(a, b *Term) *Term {
	return w.cmp("<=", "bvsle", "bvule", false, a, b)
}

func (w *World) SLen(s *Term) *Term { return App("slen", w.IS, s) }

// ---------------------------------------------------------------------------
// Go types -> sorts

func isUnsigned(t types.Type) bool {
	b, ok := t.Underlying().(*types.Basic)
	return ok && b.Info()&types.IsUnsigned != 0
}

func intWidth(b *types.Basic) int {
	switch b.Kind() {
	case types.Int8, types.Uint8:
		return 8
	case types.Int16, types.Uint16:
		return 16
	case types.Int32, types.Uint32:
		return 32
	default:
		return 64
	}
}

// mapTypeKey: heap components of maps are keyed by the underlying map type, so that a named map
// type (memory.gframe) and its spelled-out form in a contract of another package share them
func mapTypeKey(t types.Type) string { return typeKey(t.Underlying()) }

func typeKey(t types.Type) string {
	return smtName(types.TypeString(t, func(p *types.Package) string { return p.Name() }))
}

// abstractRec returns the record view of a named type declared abstract in this world.
func (w *World) abstractRec(t types.Type) *Record {
	if w.abstract == nil {
		return nil
	}
	if n, ok := types.Unalias(t).(*types.Named); ok && n.Obj().Pkg() != nil {
		return w.abstract[n.Obj().Pkg().Name()+"."+n.Obj().Name()]
	}
	return nil
}

// DeclareAbstractInstr installs the record view of bytecode.Type:
// (op, k0, a0, k1, a1, k2, a2), justified by the bit-level lemmas of C15.
func (w *World) DeclareAbstractInstr(key string) {
	if w.abstract == nil {
		w.abstract = map[string]*Record{}
	}
	r := &Record{Name: "BC", Ctor: "mk_BC", Fields: []Field{{"bc_op", w.IS}, {"bc_k0", w.IS}, {"bc_a0", w.IS}, {"bc_k1", w.IS}, {"bc_a1", w.IS}, {"bc_k2", w.IS}, {"bc_a2", w.IS}}}
	w.addRecord(r)
	w.abstract[key] = r
	w.declFun("bc_orf", "("+string(w.IS)+" "+string(w.IS)+") "+string(w.IS))
}

// BCOr is the field-wise OR of two instruction words in the record view: a
// field that is zero on one side takes the other side's value.
func (w *World) BCOr(a, b *Term) *Term {
	r := w.records["BC"]
	args := make([]*Term, len(r.Fields))
	zero := w.Int(0)
	for i := range r.Fields {
		x, y := r.Get(a, i), r.Get(b, i)
		switch {
		case x.isLit && x.lit.Sign() == 0:
			args[i] = y
		case y.isLit && y.lit.Sign() == 0:
			args[i] = x
		default:
			args[i] = Ite(Eq(x, zero), y, Ite(Eq(y, zero), x, App("bc_orf", w.IS, x, y)))
		}
	}
	return r.Make(args...)
}

func (w *World) SortOf(t types.Type) Sort {
	if r := w.abstractRec(t); r != nil {
		return r.Name
	}
	switch u := t.Underlying().(type) {
	case *types.Basic:
		info := u.Info()
		switch {
		case info&types.IsBoolean != 0:
			return SBool
		case info&types.IsInteger != 0:
			if w.Mode == "bv" {
				return Sort(fmt.Sprintf("(_ BitVec %d)", intWidth(u)))
			}
			return SInt
		case info&types.IsFloat != 0:
			return SF64
		case info&types.IsString != 0:
			return SStr
		case u.Kind() == types.UnsafePointer:
			return SInt
		case u.Kind() == types.UntypedNil:
			return SInt
		}
	case *types.Pointer, *types.Map, *types.Signature, *types.Chan:
		return SInt
	case *types.Interface:
		return SIfc
	case *types.Slice:
		return SSlc
	case *types.Array:
		return ArraySort(w.IS, w.SortOf(u.Elem()))
	case *types.Struct:
		return w.recordOf(t, u).Name
	case *types.Tuple:
		if u.Len() == 0 {
			return SBool
		}
	}
	panic("SortOf: unsupported type " + t.String())
}

func (w *World) recordOf(t types.Type, st *types.Struct) *Record {
	key := typeKey(t)
	if _, ok := t.(*types.Named); !ok {
		if _, ok := t.(*types.Alias); !ok {
			key = "anon_" + smtName(st.String())
		}
	}
	if r, ok := w.recByKey[key]; ok {
		return r
	}
	r := &Record{Name: Sort("T_" + key), Ctor: "mk_" + key}
	w.recByKey[key] = r // (no recursive structs by value in Go)
	for i := 0; i < st.NumFields(); i++ {
		f := st.Field(i)
		r.Fields = append(r.Fields, Field{Name: "f_" + key + "_" + smtName(f.Name()), Sort: w.SortOf(f.Type())})
	}
	w.addRecord(r)
	return r
}

func (w *World) RecordOfType(t types.Type) *Record {
	st, ok := t.Underlying().(*types.Struct)
	if !ok {
		panic("not a struct: " + t.String())
	}
	return w.recordOf(t, st)
}

func (w *World) Zero(t types.Type) *Term {
	if r := w.abstractRec(t); r != nil {
		args := make([]*Term, len(r.Fields))
		for i := range args {
			args[i] = w.Int(0)
		}
		return r.Make(args...)
	}
	switch u := t.Underlying().(type) {
	case *types.Basic:
		info := u.Info()
		switch {
		case info&types.IsBoolean != 0:
			return TFalse
		case info&types.IsInteger != 0:
			return IntLit(0, w.SortOf(t))
		case info&types.IsFloat != 0:
			return Atom("(_ +zero 11 53)", SF64)
		case info&types.IsString != 0:
			return w.StrLit("")
		default:
			return IntLit(0, SInt)
		}
	case *types.Pointer, *types.Map, *types.Signature, *types.Chan:
		return IntLit(0, SInt)
	case *types.Interface:
		return w.iface.Make(IntLit(0, SInt), IntLit(0, SInt))
	case *types.Slice:
		return w.slice.Make(IntLit(0, SInt), w.Int(0), w.Int(0), w.Int(0))
	case *types.Array:
		return ConstArray(w.SortOf(t), w.Zero(u.Elem()))
	case *types.Struct:
		r := w.recordOf(t, u)
		args := make([]*Term, u.NumFields())
		for i := range args {
			args[i] = w.Zero(u.Field(i).Type())
		}
		return r.Make(args...)
	}
	panic("Zero: unsupported type " + t.String())
}

// StrLit returns the constant for a Go string literal; its length and the
// first bytes are asserted as axioms.
func (w *World) StrLit(s string) *Term {
	if t, ok := w.strLits[s]; ok {
		return t
	}
	name := fmt.Sprintf("str!%d", len(w.strLits))
	t := w.declConst(name, SStr)
	w.strLits[s] = t
	var facts []*Term
	facts = append(facts, Eq(w.SLen(t), w.Int(int64(len(s)))))
	for i := 0; i < len(s) && i < 48; i++ {
		facts = append(facts, Eq(App("sat", w.byteSort(), t, w.Int(int64(i))), IntLit(int64(s[i]), w.byteSort())))
	}
	// distinct from every other literal with different content
	for o, ot := range w.strLits {
		if o != s {
			facts = append(facts, Not(Eq(t, ot)))
		}
	}
	w.axioms = append(w.axioms, And(facts...))
	return t
}

func (w *World) TypeID(t types.Type) *Term {
	k := types.TypeString(t, nil)
	id, ok := w.typeIDs[k]
	if !ok {
		id = len(w.typeIDs) + 1
		w.typeIDs[k] = id
		w.typeByID = append(w.typeByID, t)
	}
	return IntLit(int64(id), SInt)
}

// Box / Unbox for interface payloads.
func (w *World) Box(t types.Type, v *Term) *Term {
	s := w.SortOf(t)
	if s == SInt {
		return v
	}
	k := typeKey(t)
	w.declFun("box_"+k, "("+string(s)+") Int")
	w.declFun("unbox_"+k, "(Int) "+string(s))
	return App("box_"+k, SInt, v)
}

func (w *World) Unbox(t types.Type, p *Term) *Term {
	s := w.SortOf(t)
	if s == SInt {
		return p
	}
	k := typeKey(t)
	w.declFun("box_"+k, "("+string(s)+") Int")
	w.declFun("unbox_"+k, "(Int) "+string(s))
	if w.boxTypes == nil {
		w.boxTypes = map[string]types.Type{}
	}
	w.boxTypes[k] = t
	if p.Op == "box_"+k && len(p.Args) == 1 {
		return p.Args[0]
	}
	return App("unbox_"+k, s, p)
}

func (w *World) FnID(name string) *Term {
	if t, ok := w.fnIDs[name]; ok {
		return t
	}
	t := IntLit(int64(1000+len(w.fnIDs)), SInt)
	w.fnIDs[name] = t
	return t
}

// ConstTerm converts a Go constant of type t.
func (w *World) ConstTerm(c constant.Value, t types.Type) *Term {
	if c == nil {
		return w.Zero(t)
	}
	if r := w.abstractRec(t); r != nil {
		if constant.Sign(c) == 0 {
			return w.Zero(t)
		}
		panic(unsupported{"non-zero constant of abstract type " + t.String()})
	}
	switch u := t.Underlying().(type) {
	case *types.Basic:
		info := u.Info()
		switch {
		case info&types.IsBoolean != 0:
			return BoolLit(constant.BoolVal(c))
		case info&types.IsInteger != 0:
			v, ok := new(big.Int).SetString(constant.ToInt(c).ExactString(), 10)
			if !ok {
				panic("bad int const " + c.ExactString())
			}
			return IntLitBig(v, w.SortOf(t))
		case info&types.IsFloat != 0:
			f, _ := constant.Float64Val(constant.ToFloat(c))
			return w.FloatLit(f)
		case info&types.IsString != 0:
			return w.StrLit(constant.StringVal(c))
		}
	}
	panic("ConstTerm: unsupported " + t.String())
}

func (w *World) FloatLit(f float64) *Term {
	bits := fmt.Sprintf("%064b", mathFloat64bits(f))
	return Atom(fmt.Sprintf("(fp #b%s #b%s #b%s)", bits[0:1], bits[1:12], bits[12:]), SF64)
}

// ---------------------------------------------------------------------------
// script output

// ScriptQF is Script without any quantified assumption or axiom (a weaker, hence sound, premise
// set): most obligations close on the ground instances alone, and then close instantly.
func (w *World) ScriptQF(assumptions []*Term, goal *Term) string {
	w.qfOnly = true
	defer func() { w.qfOnly = false }()
	var ground []*Term
	for _, a := range assumptions {
		s := a.String()
		if strings.Contains(s, "(forall ") || strings.Contains(s, "(exists ") {
			continue
		}
		ground = append(ground, a)
	}
	return w.Script(ground, goal, false)
}

func (w *World) Script(assumptions []*Term, goal *Term, wantModel bool) string {
	var body strings.Builder
	for _, a := range assumptions {
		body.WriteString("(assert ")
		body.WriteString(a.String())
		body.WriteString(")\n")
	}
	if goal != nil {
		body.WriteString("(assert (not ")
		body.WriteString(goal.String())
		body.WriteString("))\n")
	}
	used := map[string]bool{}
	symbolsOf(body.String(), used)
	// defs first (their bodies may mention symbols that trigger axioms)
	for i := len(w.defOrder) - 1; i >= 0; i-- {
		d := w.defOrder[i]
		if used[d.Name] {
			symbolsOf(d.Body, used)
		}
	}
	var ax strings.Builder
	// an axiom is relevant only if the query mentions one of the uninterpreted
	// symbols it constrains (iterate to a fixpoint: axioms may mention literals)
	included := map[int]bool{}
	for changed := true; changed; {
		changed = false
		for i, a := range w.axioms {
			if included[i] {
				continue
			}
			as := map[string]bool{}
			symbolsOf(a.String(), as)
			// relevant iff every uninterpreted function it mentions occurs in the query
			// (and, if it talks about declared constants, at least one of them does)
			rel := true
			nfun, nconst, constUsed := 0, 0, false
			for s := range as {
				if _, isFun := w.funs[s]; isFun {
					nfun++
					if !used[s] {
						rel = false
					}
				}
				if _, isConst := w.consts[s]; isConst {
					nconst++
					if used[s] {
						constUsed = true
					}
				}
			}
			if nconst > 0 && !constUsed {
				rel = false
			}
			if nfun == 0 && nconst == 0 {
				rel = false
			}
			if rel {
				included[i] = true
				changed = true
				for s := range as {
					used[s] = true
				}
			}
		}
	}
	for i, a := range w.axioms {
		if included[i] {
			if w.qfOnly && (strings.Contains(a.String(), "(forall ") || strings.Contains(a.String(), "(exists ")) {
				continue
			}
			ax.WriteString("(assert ")
			ax.WriteString(a.String())
			ax.WriteString(")\n")
		}
	}
	// transitive closure over defs (defs are ordered; walk backwards)
	need := map[string]bool{}
	for i := len(w.defOrder) - 1; i >= 0; i-- {
		d := w.defOrder[i]
		if used[d.Name] {
			need[d.Name] = true
			symbolsOf(d.Body, used)
		}
	}
	var sb strings.Builder
	sb.WriteString("(set-option :produce-models true)\n(set-logic ALL)\n")
	sb.WriteString("(declare-sort Str 0)\n")
	for _, r := range w.recOrder {
		sb.WriteString(r.Decl())
		sb.WriteByte('\n')
	}
	// defined functions may use other functions: close the used set over their bodies
	for i := len(w.funOrder) - 1; i >= 0; i-- {
		f := w.funOrder[i]
		if used[f] {
			if body, ok := w.defFuns[f]; ok {
				symbolsOf(body, used)
			}
		}
	}
	for _, f := range w.funOrder {
		if !used[f] {
			continue
		}
		sig := w.funs[f]
		if _, ok := w.defFuns[f]; ok {
			fmt.Fprintf(&sb, "(define-fun %s %s)\n", f, sig)
			continue
		}
		// sig is "(args) ret"
		fmt.Fprintf(&sb, "(declare-fun %s %s)\n", f, sig)
	}
	// constants and defs interleaved by creation order is unnecessary: constants first
	for _, c := range w.constOrder {
		if used[c] {
			fmt.Fprintf(&sb, "(declare-const %s %s)\n", c, w.consts[c])
		}
	}
	for _, d := range w.defOrder {
		if need[d.Name] {
			fmt.Fprintf(&sb, "(define-fun %s () %s %s)\n", d.Name, d.Sort, d.Body)
		}
	}
	sb.WriteString(ax.String())
	sb.WriteString(body.String())
	sb.WriteString("(check-sat)\n")
	if wantModel {
		sb.WriteString("(get-model)\n")
	}
	return sb.String()
}
