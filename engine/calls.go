package main

import (
	"fmt"
	"go/token"
	"go/types"
	"sort"
	"strconv"
	"strings"

	"golang.org/x/tools/go/ssa"
)

type callK func(st *State, fr *Frame, res *SV)

func (x *Exec) doCall(fr *Frame, st *State, c *ssa.Call, k callK) {
	x.doCallCommon(fr, st, &c.Call, c, k)
}

func (x *Exec) doCallCommon(fr *Frame, st *State, cc *ssa.CallCommon, site ssa.Instruction, k callK) {
	// builtins
	if b, ok := cc.Value.(*ssa.Builtin); ok {
		x.doBuiltin(fr, st, b, cc, site, k)
		return
	}
	var args []*SV
	if cc.IsInvoke() {
		recv := x.val(fr, st, cc.Value)
		args = append(args, recv)
		for _, a := range cc.Args {
			args = append(args, x.val(fr, st, a))
		}
		x.doInvoke(fr, st, cc, site, args, k)
		return
	}
	for _, a := range cc.Args {
		args = append(args, x.val(fr, st, a))
	}
	if fn := cc.StaticCallee(); fn != nil {
		var free []*SV
		if mc, ok := cc.Value.(*ssa.MakeClosure); ok {
			for _, b := range mc.Bindings {
				free = append(free, x.val(fr, st, b))
			}
		}
		x.callStatic(fr, st, fn, args, free, site, k)
		return
	}
	// dynamic call through a function value
	fv := x.val(fr, st, cc.Value)
	if fv.Fn != nil {
		x.callStatic(fr, st, fv.Fn, args, fv.Bind, site, k)
		return
	}
	if fv.T != nil {
		if sv, ok := x.closureOf[fv.T.String()]; ok {
			x.callStatic(fr, st, sv.Fn, args, sv.Bind, site, k)
			return
		}
	}
	x.callDynamic(fr, st, cc, fv, args, site, k)
}

func (x *Exec) callStatic(fr *Frame, st *State, fn *ssa.Function, args []*SV, free []*SV, site ssa.Instruction, k callK) {
	key := x.eng.fnKey(fn)
	upkg := ""
	if x.unit != nil && x.unit.Con != nil {
		upkg = x.unit.Con.Pkg
	}
	if con := x.eng.contractSeenFrom(upkg, fn); con != nil && (con.View || !(fr.pure && con.Pure && fn.Blocks != nil && x.eng.inlinable(fn))) {
		if con.Implements != "" && len(fn.FreeVars) > 0 && len(con.ParamNames) == len(args)+1+len(fn.FreeVars) && len(free) == len(fn.FreeVars) {
			// a closure called through its own contract: the contract's parameters are
			// self, the closure's parameters, then the current values of its captured variables
			self := TV(x.fnTerm(&SV{Fn: fn, Bind: free}))
			full := append([]*SV{self}, args...)
			for _, fv := range free {
				if fv.P != nil {
					full = append(full, TV(x.Load(fr, st, fv.P)))
				} else {
					full = append(full, fv)
				}
			}
			args = full
		} else if con.Implements != "" && len(con.ParamNames) == len(args)+1 {
			// the contract's first parameter is `self`
			var self *SV
			if recv := fn.Signature.Recv(); recv != nil && strings.Contains(con.Implements, ".") {
				self = TV(x.w.iface.Make(x.w.TypeID(recv.Type()), x.w.Box(recv.Type(), x.svTerm(args[0]))))
			} else {
				self = TV(x.fnTerm(&SV{Fn: fn, Bind: free}))
			}
			args = append([]*SV{self}, args...)
		}
		if con.View && con.Pure && len(con.Ensures) == 0 && len(con.Requires) == 0 && len(con.Callers) == 0 && con.Implements == "" {
			x.checkAtCalls(fr, st, con.ParamNames, args, site)
			k(st, fr, x.viewApp(fn, args))
			return
		}
		x.applyContract(fr, st, con, fn.Signature, args, site, k)
		return
	}
	x.checkAtCalls(fr, st, sigNames(fn), args, site)
	if ext := x.eng.external(key, fn); ext != nil {
		ext(x, fr, st, fn, args, site, k)
		return
	}
	if fn.Blocks != nil && x.eng.inRepo(fn) {
		if fr.depth+1 > maxInlineDepth {
			unsupportedf("inline depth exceeded calling %s", fn)
		}
		if li := x.eng.loopInfo(fn); li != nil && x.eng.loopSpec(fn, 0) == nil && !x.eng.unrollable(fn) {
			// a callee with loops and no contract cannot be inlined
			x.notes = append(x.notes, "callee with loop havocked: "+key)
			x.havocCall(fr, st, fn.Signature, site, k)
			return
		}
		x.runFunction(fn, st, args, free, fr.depth+1, fr.pure, func(st2 *State, res *SV) {
			k(st2, fr.clone(), res)
		})
		return
	}
	// unknown external: havoc
	if x.eng.pureExternal(key) {
		x.notes = append(x.notes, "external assumed pure (result unconstrained): "+shortKey(key))
		k(st, fr, x.freshOfType(st, "ext."+fn.Name(), fn.Signature.Results()))
		return
	}
	x.notes = append(x.notes, "unknown external havocked: "+key)
	x.havocCall(fr, st, fn.Signature, site, k)
}

func (x *Exec) havocCall(fr *Frame, st *State, sig *types.Signature, site ssa.Instruction, k callK) {
	if fr.pure {
		unsupportedf("havoc call in pure evaluation")
	}
	x.havocAllHeap(st)
	k(st, fr, x.freshOfType(st, "hv", sig.Results()))
}

func (x *Exec) callDynamic(fr *Frame, st *State, cc *ssa.CallCommon, fv *SV, args []*SV, site ssa.Instruction, k callK) {
	// type-level contract on a named function type?
	if con := x.eng.typeContract(cc.Value.Type()); con != nil {
		all := append([]*SV{fv}, args...)
		x.applyContractNamed(fr, st, con, con.ParamNames, all, cc.Signature().Results(), site, k)
		return
	}
	if kind := x.eng.dynCallKind(fr.fn, cc.Value.Type()); kind == "pure" {
		x.notes = append(x.notes, "assumed pure (dyncall directive): calls through "+cc.Value.Type().String())
		k(st, fr, x.freshOfType(st, "dyn", cc.Signature().Results()))
		return
	}
	x.notes = append(x.notes, "dynamic call havocked: "+cc.Value.Type().String())
	x.havocCall(fr, st, cc.Signature(), site, k)
}

func (x *Exec) doInvoke(fr *Frame, st *State, cc *ssa.CallCommon, site ssa.Instruction, args []*SV, k callK) {
	if con := x.eng.methodContract(cc.Value.Type(), cc.Method.Name()); con != nil {
		x.applyContractNamed(fr, st, con, con.ParamNames, args, cc.Signature().Results(), site, k)
		return
	}
	// error.Error() and friends: pure, fresh result
	if cc.Method.Name() == "Error" || cc.Method.Name() == "String" {
		k(st, fr, x.freshOfType(st, "inv."+cc.Method.Name(), cc.Signature().Results()))
		return
	}
	x.notes = append(x.notes, "interface call havocked: "+cc.Method.FullName())
	x.havocCall(fr, st, cc.Signature(), site, k)
}

// ---------------------------------------------------------------------------
// contracts at call sites

func (x *Exec) applyContract(fr *Frame, st *State, con *Contract, sig *types.Signature, args []*SV, site ssa.Instruction, k callK) {
	x.applyContractNamed(fr, st, con, con.ParamNames, args, sig.Results(), site, k)
}

func (x *Exec) applyContractNamed(fr *Frame, st *State, con *Contract, names []string, args []*SV, results *types.Tuple, site ssa.Instruction, k callK) {
	env := &Env{x: x, vars: map[string]*SV{}, heap: st.heap, old: st.heap, fr: nil}
	for i, n := range names {
		if i < len(args) && n != "" && n != "_" {
			env.vars[n] = args[i]
		}
	}
	pos := token.NoPos
	if site != nil {
		pos = site.Pos()
	}
	x.checkAtCalls(fr, st, names, args, site)
	callee := con.Key
	if !fr.pure {
		for _, c := range append(append([]*Clause{}, con.Requires...), con.Callers...) {
			g := x.evalClauseBool(c, env, st)
			if !c.Assumed && x.unit != nil && x.unit.Spec != nil && con.Pkg != x.unit.Spec.Path && x.unit.Spec.Options["assume-pre "+shortPkg(con.Pkg)] {
				x.notes = append(x.notes, "assumed (unchecked, option assume-pre) precondition "+callee+":"+c.Label)
				st.assume(g)
				continue
			}
			if c.Assumed {
				x.notes = append(x.notes, "assumed (unchecked) precondition "+callee+":"+c.Label)
				st.assume(g)
				continue
			}
			label := fmt.Sprintf("%s:%s", callee, c.Label)
			if site != nil {
				label += "@" + x.srcLabel(pos, "call")
			}
			x.oblige(st, "precondition", label, c.Tags, g, pos)
			st.assume(g)
		}
	}
	pre := st.heap.clone()
	// frame: havoc what the callee may modify
	if !con.Pure {
		if fr.pure {
			unsupportedf("non-pure contract call %s in pure evaluation", callee)
		}
		x.havocModifies(st, con, env)
	}
	res := x.freshOfType(st, "r."+smtName(callee), results)
	penv := &Env{x: x, vars: map[string]*SV{}, heap: st.heap, old: pre}
	for k2, v := range env.vars {
		penv.vars[k2] = v
	}
	bindResults(penv, con.ResultNames, res)
	npc := len(st.pc)
	for _, c := range con.Ensures {
		if x.eng.knownOpen[shortPkg(con.Pkg)+"."+con.Key+"#ensures["+c.Label+"]"] {
			// a postcondition listed as an open finding does not hold: callers must not rely on it
			x.notes = append(x.notes, "postcondition "+callee+":"+c.Label+" is a listed open finding and is not assumed at call sites")
			continue
		}
		if strings.Contains(c.Raw, "marked(") {
			// relative to a point inside the callee's body: means nothing to a caller, not assumed
			continue
		}
		st.assume(x.evalClauseBool(c, penv, st))
	}
	if len(con.Ensures) > 0 && !fr.pure && fr.depth == 0 && !st.dead && !x.feasible(st) {
		// the callee's postconditions are inconsistent with the state they are assumed in: either
		// the path was already dead (then nothing is lost) or the contract is contradictory here and
		// everything after this call would be proved vacuously - the unit is reported as broken
		before := &State{heap: st.heap, pc: st.pc[:npc], known: map[string]bool{}}
		if x.feasible(before) {
			x.vacuous = append(x.vacuous, fmt.Sprintf("postconditions of %s contradict the caller's state at %s", callee, x.eng.posString(pos)))
		}
	}
	if !con.Pure {
		x.checkRunning(fr, st, pos)
	}
	if fr.depth == 0 && !fr.pure && site != nil && x.unit != nil && x.unit.Con != nil && len(x.unit.Con.Marks) > 0 {
		text := x.srcLabel(site.Pos(), "call")
		for _, m := range x.unit.Con.Marks {
			if siteMatches(text, m) {
				st.markHeap = st.heap.clone()
			}
		}
	}
	k(st, fr, res)
}

func bindResults(env *Env, names []string, res *SV) {
	if len(names) == 1 {
		env.vars[names[0]] = res
		return
	}
	for i, n := range names {
		if i < len(res.Tuple) {
			env.vars[n] = res.Tuple[i]
		}
	}
}

// havocModifies forgets the locations named in the contract's modifies clauses.
func (x *Exec) havocModifies(st *State, con *Contract, env *Env) {
	if con.ModifiesAll {
		x.havocAllHeap(st)
		return
	}
	locs := x.modifiesLocs(con, env, st)
	for _, l := range locs {
		s := x.compSorts[l.comp]
		c := x.compOf(st.heap, l.comp, s)
		if l.ref == nil {
			st.heap.comps[l.comp] = x.w.Fresh("modall."+l.comp, s)
			x.writes[l.comp] = true
			continue
		}
		_, es := s.ArrayParts()
		x.setComp(st.heap, l.comp, Store(c, l.ref, x.w.Fresh("mod."+l.comp, es)))
		x.writes[l.comp] = true
	}
	if con.Allocates || len(locs) > 0 || mentionsFresh(con) {
		na := x.w.Fresh("alloc", SInt)
		st.assume(App("<=", SBool, st.heap.alloc, na))
		st.heap.alloc = na
	}
}

type modLoc struct {
	comp string
	ref  *Term
}

// ---------------------------------------------------------------------------
// builtins

func (x *Exec) doBuiltin(fr *Frame, st *State, b *ssa.Builtin, cc *ssa.CallCommon, site ssa.Instruction, k callK) {
	w := x.w
	arg := func(i int) *Term { return x.term(fr, st, cc.Args[i]) }
	switch b.Name() {
	case "len", "cap":
		a := arg(0)
		switch u := cc.Args[0].Type().Underlying().(type) {
		case *types.Slice:
			if b.Name() == "len" {
				k(st, fr, TV(w.slice.Get(a, 2)))
			} else {
				k(st, fr, TV(w.slice.Get(a, 3)))
			}
		case *types.Basic:
			k(st, fr, TV(w.SLen(a)))
		case *types.Array:
			k(st, fr, TV(w.Int(u.Len())))
		case *types.Map:
			w.declFun("maplen", "(Int "+string(x.compSortsMapDom(st, u, cc.Args[0].Type()))+") "+string(w.IS))
			_, _, _, md := x.mapComps(st.heap, u, cc.Args[0].Type())
			k(st, fr, TV(App("maplen", w.IS, a, Select(md, a))))
		case *types.Pointer:
			at := u.Elem().Underlying().(*types.Array)
			k(st, fr, TV(w.Int(at.Len())))
		default:
			unsupportedf("len of %s", cc.Args[0].Type())
		}
	case "append":
		x.doAppend(fr, st, cc, site, k)
	case "copy":
		x.doCopy(fr, st, cc, site, k)
	case "max", "min":
		a, c := arg(0), arg(1)
		t := cc.Args[0].Type()
		lt := x.binop(fr, st, token.LSS, a, c, t, t, site.Pos())
		if b.Name() == "max" {
			k(st, fr, TV(Ite(lt, c, a)))
		} else {
			k(st, fr, TV(Ite(lt, a, c)))
		}
	case "ssa:wrapnilchk":
		k(st, fr, x.val(fr, st, cc.Args[0]))
	case "ssa:deferstack":
		k(st, fr, &SV{})
	case "print", "println":
		k(st, fr, &SV{})
	case "delete":
		m := arg(0)
		mt := cc.Args[0].Type().Underlying().(*types.Map)
		_, _, dn, md := x.mapComps(st.heap, mt, cc.Args[0].Type())
		x.setComp(st.heap, dn, Store(md, m, Store(Select(md, m), arg(1), TFalse)))
		x.noteWrite(dn, m)
		k(st, fr, &SV{})
	default:
		unsupportedf("builtin %s", b.Name())
	}
}

func (x *Exec) compSortsMapDom(st *State, mt *types.Map, full types.Type) Sort {
	return ArraySort(x.w.SortOf(mt.Key()), SBool)
}

// doAppend models append(s, t...) per the Go spec; forks on "fits in capacity".
func (x *Exec) doAppend(fr *Frame, st *State, cc *ssa.CallCommon, site ssa.Instruction, k callK) {
	w := x.w
	if fr.pure {
		unsupportedf("append in pure evaluation")
	}
	s := x.term(fr, st, cc.Args[0])
	st0 := cc.Args[0].Type().Underlying().(*types.Slice)
	et := st0.Elem()
	var addLen *Term
	var addElem func(j *Term) *Term // element j of the appended sequence
	var litN int = -1
	if bt, ok := cc.Args[1].Type().Underlying().(*types.Basic); ok && bt.Info()&types.IsString != 0 {
		t := x.term(fr, st, cc.Args[1])
		addLen = w.SLen(t)
		addElem = func(j *Term) *Term { return App("sat", w.byteSort(), t, j) }
	} else {
		t := x.term(fr, st, cc.Args[1])
		tarr, toff := w.slice.Get(t, 0), w.slice.Get(t, 1)
		addLen = w.slice.Get(t, 2)
		_, e := x.elemComp(st.heap, et)
		row := Select(e, tarr)
		addElem = func(j *Term) *Term { return Select(row, w.Add(toff, j)) }
	}
	if addLen.isLit && addLen.lit.IsInt64() && addLen.lit.Int64() <= 8 {
		litN = int(addLen.lit.Int64())
	}
	arr, off, ln, cp := w.slice.Get(s, 0), w.slice.Get(s, 1), w.slice.Get(s, 2), w.slice.Get(s, 3)
	newLen := w.Add(ln, addLen)
	fits := w.Le(newLen, cp)
	if w.Mode == "bv" {
		st.assume(w.Le(addLen, w.Int(1<<40)))
	}

	write := func(st *State, row *Term, base *Term) *Term {
		// row with row[base+j] = addElem(j) for 0<=j<addLen
		if litN >= 0 {
			for j := 0; j < litN; j++ {
				row = Store(row, w.Add(base, w.Int(int64(j))), addElem(w.Int(int64(j))))
			}
			return row
		}
		nr := w.Fresh("app.row", row.Sort)
		j := Atom("j", w.IS)
		st.assume(Forall([]*Term{j}, Imp(And(w.Le(w.Int(0), j), w.Lt(j, addLen)),
			Eq(Select(nr, w.Add(base, j)), addElem(j))), []*Term{Select(nr, w.Add(base, j))}))
		kk := Atom("k", w.IS)
		st.assume(Forall([]*Term{kk}, Imp(Or(w.Lt(kk, base), w.Le(w.Add(base, addLen), kk)),
			Eq(Select(nr, kk), Select(row, kk))), []*Term{Select(nr, kk)}))
		return nr
	}

	if litN >= 0 && x.unit != nil && x.unit.Spec != nil && x.unit.Spec.Options["merged-append"] {
		// merged encoding (no path split): the result lives in the old array when it fits and in a
		// fresh one otherwise
		n, e := x.elemComp(st.heap, et)
		r := x.newRef(st)
		oldrow := Select(e, arr)
		copyrow := w.Fresh("app.new", oldrow.Sort)
		i := Atom("i", w.IS)
		st.assume(Forall([]*Term{i}, Imp(And(w.Le(w.Int(0), i), w.Lt(i, ln)),
			Eq(Select(copyrow, i), Select(oldrow, w.Add(off, i)))), []*Term{Select(copyrow, i)}))
		ncap := w.Fresh("app.cap", w.IS)
		st.assume(w.Le(newLen, ncap))
		if w.Mode == "bv" {
			st.assume(w.Le(ncap, w.Int(1<<41)))
		}
		fitsT := w.Define("app.fits", fits)
		narr := Ite(fitsT, arr, r)
		noff := Ite(fitsT, off, w.Int(0))
		row := Ite(fitsT, oldrow, copyrow)
		row = write(st, row, w.Add(noff, ln))
		if litN > 0 {
			x.writeSite(fr, st, "append", narr, et, site)
			x.setComp(st.heap, n, Store(e, narr, row))
			x.noteWrite(n, narr)
		}
		k(st, fr, TV(w.slice.Make(narr, noff, newLen, Ite(fitsT, cp, ncap))))
		return
	}
	// path 1: fits (in place)
	st1, fr1 := st.clone(), fr.clone()
	st1.assume(fits)
	if x.feasible(st1) {
		// appending zero elements to a nil slice keeps nil
		n, e := x.elemComp(st1.heap, et)
		row := Select(e, arr)
		nrow := write(st1, row, w.Add(off, ln))
		if !(litN == 0) {
			x.writeSite(fr1, st1, "append", arr, et, site)
			x.setComp(st1.heap, n, Store(e, arr, nrow))
			x.noteWrite(n, arr)
		}
		k(st1, fr1, TV(w.slice.Make(arr, off, newLen, cp)))
	}
	// path 2: reallocate
	st2, fr2 := st, fr
	st2.assume(Not(fits))
	if x.feasible(st2) {
		n, e := x.elemComp(st2.heap, et)
		r := x.newRef(st2)
		oldrow := Select(e, arr)
		var nrow *Term
		// copy old contents [0,ln)
		base := w.Fresh("app.new", oldrow.Sort)
		i := Atom("i", w.IS)
		st2.assume(Forall([]*Term{i}, Imp(And(w.Le(w.Int(0), i), w.Lt(i, ln)),
			Eq(Select(base, i), Select(oldrow, w.Add(off, i)))), []*Term{Select(base, i)}))
		nrow = write(st2, base, ln)
		x.setComp(st2.heap, n, Store(e, r, nrow))
		ncap := w.Fresh("app.cap", w.IS)
		st2.assume(w.Le(newLen, ncap))
		if w.Mode == "bv" {
			st2.assume(w.Le(ncap, w.Int(1<<41)))
		}
		k(st2, fr2, TV(w.slice.Make(r, w.Int(0), newLen, ncap)))
	}
}

func (x *Exec) doCopy(fr *Frame, st *State, cc *ssa.CallCommon, site ssa.Instruction, k callK) {
	w := x.w
	if fr.pure {
		unsupportedf("copy in pure evaluation")
	}
	d := x.term(fr, st, cc.Args[0])
	et := cc.Args[0].Type().Underlying().(*types.Slice).Elem()
	darr, doff, dlen := w.slice.Get(d, 0), w.slice.Get(d, 1), w.slice.Get(d, 2)
	var slen *Term
	var selem func(j *Term) *Term
	if bt, ok := cc.Args[1].Type().Underlying().(*types.Basic); ok && bt.Info()&types.IsString != 0 {
		t := x.term(fr, st, cc.Args[1])
		slen = w.SLen(t)
		selem = func(j *Term) *Term { return App("sat", w.byteSort(), t, j) }
	} else {
		t := x.term(fr, st, cc.Args[1])
		sarr, soff := w.slice.Get(t, 0), w.slice.Get(t, 1)
		slen = w.slice.Get(t, 2)
		_, e := x.elemComp(st.heap, et)
		srow := Select(e, sarr)
		selem = func(j *Term) *Term { return Select(srow, w.Add(soff, j)) }
	}
	n := Ite(w.Lt(dlen, slen), dlen, slen)
	n = x.w.Define("copy.n", n)
	cn, e := x.elemComp(st.heap, et)
	row := Select(e, darr)
	nr := w.Fresh("copy.row", row.Sort)
	j := Atom("j", w.IS)
	st.assume(Forall([]*Term{j}, Imp(And(w.Le(w.Int(0), j), w.Lt(j, n)),
		Eq(Select(nr, w.Add(doff, j)), selem(j))), []*Term{Select(nr, w.Add(doff, j))}))
	kk := Atom("k", w.IS)
	st.assume(Forall([]*Term{kk}, Imp(Or(w.Lt(kk, doff), w.Le(w.Add(doff, n), kk)),
		Eq(Select(nr, kk), Select(row, kk))), []*Term{Select(nr, kk)}))
	x.writeSite(fr, st, "copy", darr, et, site)
	x.setComp(st.heap, cn, Store(e, darr, nr))
	x.noteWrite(cn, darr)
	k(st, fr, TV(n))
}

// writeSite is the hook for region-discipline obligations (C10): a write into
// the backing array `arr` of element type et happens here.
func (x *Exec) writeSite(fr *Frame, st *State, kind string, arr *Term, et types.Type, site ssa.Instruction) {
	if x.unit == nil || x.unit.WriteHook == nil {
		return
	}
	x.unit.WriteHook(x, fr, st, kind, arr, et, site)
}

// ---------------------------------------------------------------------------
// effects (for loop havoc)

func (e *Engine) instrEffects(x *Exec, fn *ssa.Function, ins ssa.Instruction, eff *effects, depth int) {
	switch i := ins.(type) {
	case *ssa.Store:
		e.addrEffects(x, i.Addr, eff)
	case *ssa.MapUpdate:
		k := mapTypeKey(i.Map.Type())
		eff.comps["MV!"+k] = true
		eff.comps["MD!"+k] = true
	case *ssa.Alloc:
		if i.Heap {
			eff.allocates = true
			et := i.Type().(*types.Pointer).Elem()
			e.typeComps(et, eff)
		} else {
			eff.allocs[i] = true
		}
	case *ssa.MakeSlice:
		eff.allocates = true
		eff.comps["E!"+typeKey(i.Type().Underlying().(*types.Slice).Elem())] = true
	case *ssa.MakeMap, *ssa.MakeClosure:
		eff.allocates = true
	case *ssa.Defer:
		e.callEffects(x, &i.Call, eff, depth)
	case *ssa.Call:
		e.callEffects(x, &i.Call, eff, depth)
	}
}

func (e *Engine) typeComps(t types.Type, eff *effects) {
	switch u := t.Underlying().(type) {
	case *types.Struct:
		for i := 0; i < u.NumFields(); i++ {
			eff.comps[fieldCompName(t, i)] = true
		}
	case *types.Array:
		eff.comps["E!"+typeKey(u.Elem())] = true
	default:
		eff.comps["P!"+typeKey(t)] = true
	}
}

func (e *Engine) addrEffects(x *Exec, addr ssa.Value, eff *effects) {
	// walk back to the root of the address computation
	var firstField *ssa.FieldAddr
	cur := addr
	for {
		switch a := cur.(type) {
		case *ssa.FieldAddr:
			firstField = a
			cur = a.X
			continue
		case *ssa.IndexAddr:
			if sl, ok := a.X.Type().Underlying().(*types.Slice); ok {
				eff.comps["E!"+typeKey(sl.Elem())] = true
				return
			}
			firstField = nil
			cur = a.X
			// pointer to array: treat as array object
			if pt, ok := a.X.Type().Underlying().(*types.Pointer); ok {
				if at, ok := pt.Elem().Underlying().(*types.Array); ok {
					if al, ok := a.X.(*ssa.Alloc); ok && !al.Heap {
						eff.allocs[al] = true
						return
					}
					eff.comps["E!"+typeKey(at.Elem())] = true
					if al, ok := a.X.(*ssa.Alloc); ok {
						_ = al
					}
					return
				}
			}
			continue
		case *ssa.Alloc:
			if !a.Heap {
				eff.allocs[a] = true
				return
			}
			et := a.Type().(*types.Pointer).Elem()
			if firstField != nil {
				eff.comps[fieldCompName(et, firstField.Field)] = true
			} else {
				e.typeComps(et, eff)
			}
			return
		case *ssa.Global:
			eff.comps["G!"+a.Pkg.Pkg.Name()+"."+a.Name()] = true
			return
		case *ssa.ChangeType:
			cur = a.X
			continue
		case *ssa.Convert:
			cur = a.X
			continue
		default:
			// a pointer value loaded from somewhere: heap object
			pt, ok := cur.Type().Underlying().(*types.Pointer)
			if !ok {
				eff.all = true
				return
			}
			if firstField != nil {
				st := firstField.X.Type().Underlying().(*types.Pointer).Elem()
				eff.comps[fieldCompName(st, firstField.Field)] = true
			} else {
				e.typeComps(pt.Elem(), eff)
			}
			return
		}
	}
}

func (e *Engine) callEffects(x *Exec, cc *ssa.CallCommon, eff *effects, depth int) {
	if b, ok := cc.Value.(*ssa.Builtin); ok {
		switch b.Name() {
		case "append":
			eff.allocates = true
			eff.comps["E!"+typeKey(cc.Args[0].Type().Underlying().(*types.Slice).Elem())] = true
		case "copy":
			eff.comps["E!"+typeKey(cc.Args[0].Type().Underlying().(*types.Slice).Elem())] = true
		case "delete":
			k := mapTypeKey(cc.Args[0].Type())
			eff.comps["MD!"+k] = true
		}
		return
	}
	if cc.IsInvoke() {
		if con := e.methodContract(cc.Value.Type(), cc.Method.Name()); con != nil {
			e.contractEffects(x, con, eff)
			return
		}
		if cc.Method.Name() == "Error" || cc.Method.Name() == "String" {
			return
		}
		eff.all = true
		return
	}
	fn := cc.StaticCallee()
	if fn == nil {
		if con := e.typeContract(cc.Value.Type()); con != nil {
			e.contractEffects(x, con, eff)
			return
		}
		eff.all = true
		return
	}
	if con := e.contractFor(fn); con != nil {
		e.contractEffects(x, con, eff)
		return
	}
	key := e.fnKey(fn)
	if e.external(key, fn) != nil || e.pureExternal(key) {
		if e.externalAllocates(key) {
			eff.allocates = true
			for _, c := range e.externalComps(key, fn) {
				eff.comps[c] = true
			}
		}
		return
	}
	if e.unrollable(fn) {
		// flag-passing helpers: write only their own (fresh) locals
		eff.allocates = true
		return
	}
	if fn.Blocks != nil && e.inRepo(fn) && depth < 6 {
		for _, b := range fn.Blocks {
			for _, ins := range b.Instrs {
				sub := &effects{allocs: map[*ssa.Alloc]bool{}, comps: eff.comps}
				e.instrEffects(x, fn, ins, sub, depth+1)
				eff.all = eff.all || sub.all
				eff.allocates = eff.allocates || sub.allocates
			}
		}
		return
	}
	eff.all = true
}

func (e *Engine) contractEffects(x *Exec, con *Contract, eff *effects) {
	if con.Pure {
		return
	}
	if con.ModifiesAll {
		eff.all = true
		return
	}
	eff.allocates = true
	for _, c := range con.ModComps {
		eff.comps[c] = true
	}
}

func isStringType(t types.Type) bool {
	b, ok := t.Underlying().(*types.Basic)
	return ok && b.Info()&types.IsString != 0
}

func stripPkg(s string) string {
	if i := strings.LastIndex(s, "/"); i >= 0 {
		return s[i+1:]
	}
	return s
}

// checkAtCalls: caller-side obligations attached to specific call sites of the unit under
// verification ("atcall" clauses); the callee's actual arguments are visible as callee_<param>.
func (x *Exec) checkAtCalls(fr *Frame, st *State, names []string, args []*SV, site ssa.Instruction) {
	if fr.depth == 0 && !fr.pure && site != nil && x.unit != nil && x.unit.Con != nil {
		for _, c := range x.unit.Con.Forbids {
			if siteMatches(x.srcLabel(site.Pos(), "call"), c.Site) {
				x.oblige(st, "forbid", c.Label+"@"+c.Site, c.Tags, TFalse, site.Pos())
			}
		}
	}
	if fr.depth != 0 || fr.pure || site == nil || x.unit == nil || x.unit.Con == nil || len(x.unit.Con.AtCalls) == 0 {
		return
	}
	text := x.srcLabel(site.Pos(), "call")
	for _, c := range x.unit.Con.AtCalls {
		sub, ord := c.Site, 0
		if i := strings.LastIndex(sub, "#"); i > 0 {
			if n, err := strconv.Atoi(sub[i+1:]); err == nil {
				sub, ord = strings.TrimSpace(sub[:i]), n
			}
		}
		if !siteMatches(text, sub) {
			continue
		}
		if ord > 0 && x.callSiteOrdinal(fr.fn, sub, site.Pos()) != ord {
			continue
		}
		env := x.loopEnv(fr, st)
		vars := map[string]*SV{}
		for k, v := range env.vars {
			vars[k] = v
		}
		for i, n := range names {
			if i < len(args) && n != "" {
				vars["callee_"+n] = args[i]
			}
		}
		env.vars = vars
		env.scopePos = site.Pos()
		g := x.evalClauseBool(c, env, st)
		// the obligation is named after the clause's site pattern, not after the text of the matched
		// call: the name must survive a change of the call's arguments
		x.oblige(st, "atcall", c.Label+"@"+c.Site, c.Tags, g, site.Pos())
		if !x.eng.knownOpen[x.unit.Key+"#atcall["+c.Label+"@"+c.Site+"]"] {
			st.assume(g)
		}
	}
}


// sigNames: parameter names of a callee (receiver first), for atcall clauses on calls without contract.
func sigNames(fn *ssa.Function) []string {
	var out []string
	if len(fn.Params) > 0 {
		for _, p := range fn.Params {
			out = append(out, p.Name())
		}
		return out
	}
	if r := fn.Signature.Recv(); r != nil {
		out = append(out, r.Name())
	}
	ps := fn.Signature.Params()
	for i := 0; i < ps.Len(); i++ {
		out = append(out, ps.At(i).Name())
	}
	return out
}

// callSiteOrdinal: 1-based rank, in source order, of the call at pos among the call sites of fn
// whose source text contains sub.
func (x *Exec) callSiteOrdinal(fn *ssa.Function, sub string, pos token.Pos) int {
	seen := map[token.Pos]bool{}
	var ps []int
	for _, b := range fn.Blocks {
		for _, in := range b.Instrs {
			switch in.(type) {
			case *ssa.Call, *ssa.Defer, *ssa.Go:
			default:
				continue
			}
			p := in.Pos()
			if !p.IsValid() || seen[p] {
				continue
			}
			seen[p] = true
			if siteMatches(x.srcLabel(p, "call"), sub) {
				ps = append(ps, int(p))
			}
		}
	}
	sort.Ints(ps)
	for i, p := range ps {
		if p == int(pos) {
			return i + 1
		}
	}
	return 0
}


// mentionsFresh: a postcondition that speaks of fresh storage implies the callee allocates.
func mentionsFresh(con *Contract) bool {
	for _, c := range con.Ensures {
		if strings.Contains(c.Raw, "fresh(") {
			return true
		}
	}
	return false
}


// siteMatches: an atcall site pattern matches a call whose source text contains it; a pattern that
// starts with ^ must match at the start of the text (the call itself, not a call among its arguments).
func siteMatches(text, pat string) bool {
	if strings.HasPrefix(pat, "^") {
		if !strings.HasPrefix(text, pat[1:]) {
			return false
		}
		// the call itself: the argument list opened by the first parenthesis runs to the end of the
		// text (not f(...)(x), which is a call of f's result)
		i := strings.Index(text, "(")
		if i < 0 {
			return true
		}
		depth := 0
		for j := i; j < len(text); j++ {
			switch text[j] {
			case '(':
				depth++
			case ')':
				depth--
				if depth == 0 {
					return j == len(text)-1
				}
			}
		}
		return true
	}
	return strings.Contains(text, pat)
}
