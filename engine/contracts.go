package main

// Contract files: parsing of //@ comments and generation of the type-checked
// overlay (each clause becomes a Go function whose body is the clause
// expression; go/types resolves every identifier against the current tree).

import (
	"fmt"
	"go/ast"
	"go/types"
	"os"
	"path/filepath"
	"regexp"
	"sort"
	"strings"

	"golang.org/x/tools/go/ssa"
)

type Clause struct {
	Kind   string // requires ensures invariant decreases modifies
	Label  string
	Tags   []string
	Text   string // Go expression text after sugar expansion
	Raw    string
	GoName string // generated function name
	Loop   int
	Line   int
	Site       string // atcall: substring of the call's source text
	With       string // atcall: extra parameter declarations "callee_x T, ..."
	CutComment string
	CutOrd     int
	Havoc      []string
	Expr   ast.Expr // body expression after load
	Func   *ast.FuncDecl
	Assumed bool
	Unbound bool // the clause no longer type-checks against the current code (a name it uses is gone)
}

type LoopSpec struct {
	Invariants []*Clause
	Decreases  *Clause
	// Steps are transition obligations: checked at every back edge of the loop, with iter(e)
	// denoting the value of e at the head of the iteration; never assumed
	Steps []*Clause
	// Exits are obligations on every way out of the loop other than the back edge (a jump to a block
	// outside the body, or a return inside it), with iter(e) as in Steps; never assumed
	Exits []*Clause
}

type Contract struct {
	Key         string // function key, or "type X.method", or "lemma name"
	Pkg         string // package path
	Kind        string // func | type | lemma
	Tags        []string
	Pure        bool
	Trusted     bool // contract is assumed, body not verified
	Canary      bool
	Allocates   bool
	ModifiesAll bool
	MayPanic    bool
	TrustFrame  bool
	ImplicitOnly map[string][]string // "checks" clause: implicit-obligation kind -> tags
	Auto        bool // lemma: also installed as a quantified axiom in the units of its package
	View        bool // contract on a function of another package, as seen from this package
	RefIface    string // refine: "pkg.Iface"
	RefVar      string
	RefType     string
	Coupling    *Clause
	Models      map[string]*Clause
	ModelParams map[string]string
	Implements  string
	Callers     []*Clause
	Requires    []*Clause
	Ensures     []*Clause
	Modifies    []*Clause
	Loops       map[int]*LoopSpec
	Cuts        []*Clause
	Running     []*Clause
	AtCalls     []*Clause
	Forbids     []*Clause // forbid <site substring> [label;tags]: a call whose source text contains it is a violation
	Marks       []string // call-site patterns: the heap after such a call returns is what marked(e) reads
	ParamNames  []string
	ParamTypes  []string
	ResultNames []string
	VarsText    string // lemma: "a T, b T"
	ParamsText  string // type contracts: explicit parameter names
	ModComps    []string
	Line        int
	File        string
	Bounded     string
	Unbound     bool // some clause of the contract is unbound: the unit is not verified (its obligations are reported as no longer generated)
}

type Pred struct {
	Name   string
	Params string
	Ret    string
	Body   string
	Ghost  bool // uninterpreted heap-dependent function (model field)
	Fun    bool // heap-independent: emitted as an SMT define-fun instead of being inlined
	Line   int
	Decl   *ast.FuncDecl
}

type PkgSpec struct {
	Path      string
	Dir       string
	File      string
	Mode      string
	Implicit  []string
	Preds     []*Pred
	Contracts []*Contract
	GlobalInv []*Clause
	Axioms    []*Clause
	TypeInvs  map[string]string // type name -> pred name
	DynCalls  map[string]string // signature string -> "pure"
	Abstract  []string          // named types viewed as records (e.g. bytecode.Type)
	Options   map[string]bool
	Hash      string
	byGoName  map[string]*Clause
	conOf     map[*Clause]*Contract
}

var clauseKW = map[string]bool{"requires": true, "ensures": true, "modifies": true, "loop": true, "allocates": true,
	"params": true, "vars": true, "pure": true, "trusted": true, "bounded": true, "assumes": true, "maypanic": true, "checks": true, "trustframe": true, "callers": true, "coupling": true, "model": true, "cut": true, "running": true, "atcall": true, "mark": true, "forbid": true}

var headRe = regexp.MustCompile(`^(func|type|lemma|canary|refine)\s+(.*)$`)
var tagsRe = regexp.MustCompile(`\[(C[0-9]+(?:\s*,\s*C[0-9]+)*)\]`)
var labelRe = regexp.MustCompile(`^(requires|ensures|assumes|callers|invariant|decreases|step|exit)(\[[^\]]*\])?\s*(.*)$`)

func parseTags(s string) (string, []string) {
	m := tagsRe.FindStringSubmatchIndex(s)
	if m == nil {
		return strings.TrimSpace(s), nil
	}
	var tags []string
	for _, t := range strings.Split(s[m[2]:m[3]], ",") {
		t = strings.TrimSpace(t)
		if t != "" {
			tags = append(tags, t)
		}
	}
	return strings.TrimSpace(s[:m[0]] + " " + s[m[1]:]), tags
}

// ParseContractFile reads the //@ lines of one contract file.
func ParseContractFile(path, pkgPath string) (*PkgSpec, error) {
	data, err := os.ReadFile(path)
	if err != nil {
		return nil, err
	}
	ps := &PkgSpec{Path: pkgPath, Dir: filepath.Dir(path), File: path, Mode: "int"}
	var cur *Contract
	var curClause *Clause
	var curPred *Pred
	flushPred := func() { curPred = nil }
	for ln, line := range strings.Split(string(data), "\n") {
		t := strings.TrimLeft(line, " \t")
		if !strings.HasPrefix(t, "//@") {
			continue
		}
		body := strings.TrimPrefix(t, "//@")
		if strings.TrimSpace(body) == "" {
			continue
		}
		if strings.HasPrefix(strings.TrimSpace(body), "//") || strings.HasPrefix(strings.TrimSpace(body), "#") {
			continue // comment inside contract file
		}
		indented := strings.HasPrefix(body, "  ") || strings.HasPrefix(body, "\t")
		text := strings.TrimSpace(body)
		// strip trailing comments "  // ..."
		if i := strings.Index(text, " // "); i >= 0 {
			text = strings.TrimSpace(text[:i])
		}
		first := text
		if i := strings.IndexAny(text, " \t[("); i >= 0 {
			first = text[:i]
		}
		if !indented {
			curClause = nil
			flushPred()
			switch first {
			case "mode":
				ps.Mode = strings.TrimSpace(strings.TrimPrefix(text, "mode"))
				cur = nil
				continue
			case "implicit":
				_, ps.Implicit = parseTags(text)
				cur = nil
				continue
			case "pred", "ghost", "fun":
				p, err := parsePred(strings.TrimSpace(strings.TrimPrefix(text, first)), first == "ghost")
				if p != nil {
					p.Fun = first == "fun"
				}
				if err != nil {
					return nil, fmt.Errorf("%s:%d: %v", path, ln+1, err)
				}
				p.Line = ln + 1
				ps.Preds = append(ps.Preds, p)
				curPred = p
				cur = nil
				continue
			case "option":
				if ps.Options == nil {
					ps.Options = map[string]bool{}
				}
				ps.Options[strings.TrimSpace(strings.TrimPrefix(text, "option"))] = true
				cur = nil
				continue
			case "abstract":
				ps.Abstract = append(ps.Abstract, strings.TrimSpace(strings.TrimPrefix(text, "abstract")))
				cur = nil
				continue
			case "dyncall":
				rest := strings.TrimSpace(strings.TrimPrefix(text, "dyncall"))
				i := strings.LastIndex(rest, " ")
				if i < 0 {
					return nil, fmt.Errorf("%s:%d: dyncall <signature> pure", path, ln+1)
				}
				if ps.DynCalls == nil {
					ps.DynCalls = map[string]string{}
				}
				ps.DynCalls[strings.TrimSpace(rest[:i])] = strings.TrimSpace(rest[i+1:])
				cur = nil
				continue
			case "typeinv":
				f := strings.Fields(text)
				if len(f) != 3 {
					return nil, fmt.Errorf("%s:%d: typeinv <Type> <pred>", path, ln+1)
				}
				if ps.TypeInvs == nil {
					ps.TypeInvs = map[string]string{}
				}
				ps.TypeInvs[f[1]] = f[2]
				cur = nil
				continue
			case "globalinv", "axiom":
				c := &Clause{Kind: first, Raw: strings.TrimSpace(strings.TrimPrefix(text, first)), Line: ln + 1, Label: fmt.Sprintf("%s%d", first, len(ps.GlobalInv)+len(ps.Axioms))}
				if first == "globalinv" {
					ps.GlobalInv = append(ps.GlobalInv, c)
				} else {
					ps.Axioms = append(ps.Axioms, c)
				}
				curClause = c
				cur = nil
				continue
			}
			m := headRe.FindStringSubmatch(text)
			if m == nil {
				return nil, fmt.Errorf("%s:%d: unknown directive %q", path, ln+1, text)
			}
			rest, tags := parseTags(m[2])
			cur = &Contract{Pkg: pkgPath, Kind: m[1], Tags: tags, Loops: map[int]*LoopSpec{}, Line: ln + 1, File: path}
			if m[1] == "canary" {
				cur.Kind = "func"
				cur.Canary = true
				rest = strings.TrimSpace(strings.TrimPrefix(rest, "func"))
			}
			// flags after the key
			fields := strings.Fields(rest)
			var keyParts []string
			for fi := 0; fi < len(fields); fi++ {
				f := fields[fi]
				switch f {
				case "pure":
					cur.Pure = true
				case "trusted":
					cur.Trusted = true
				case "auto":
					cur.Auto = true
				case "implements":
					if fi+1 < len(fields) {
						cur.Implements = fields[fi+1]
						fi++
					}
				default:
					keyParts = append(keyParts, f)
				}
			}
			cur.Key = strings.Join(keyParts, " ")
			if cur.Kind == "refine" {
				// "pkg.Iface by v *T"
				if len(keyParts) != 4 || keyParts[1] != "by" {
					return nil, fmt.Errorf("%s:%d: refine <pkg.Iface> by <var> <Type>", path, ln+1)
				}
				cur.RefIface, cur.RefVar, cur.RefType = keyParts[0], keyParts[2], keyParts[3]
				cur.Models = map[string]*Clause{}
				cur.ModelParams = map[string]string{}
			}
			ps.Contracts = append(ps.Contracts, cur)
			continue
		}
		// indented line
		if curPred != nil && !clauseKW[first] {
			curPred.Body += " " + text
			continue
		}
		if !clauseKW[first] {
			if curClause == nil {
				return nil, fmt.Errorf("%s:%d: continuation without clause: %q", path, ln+1, text)
			}
			curClause.Raw += " " + text
			continue
		}
		if cur == nil {
			return nil, fmt.Errorf("%s:%d: clause outside contract: %q", path, ln+1, text)
		}
		curClause = nil
		switch first {
		case "pure":
			cur.Pure = true
		case "trusted":
			cur.Trusted = true
		case "allocates":
			cur.Allocates = true
		case "cut":
			// cut <block comment> <ordinal> havoc a, b invariant EXPR
			rest := strings.TrimSpace(strings.TrimPrefix(text, "cut"))
			f := strings.Fields(rest)
			hi := strings.Index(rest, " havoc ")
			ii := strings.Index(rest, " invariant ")
			if len(f) < 2 || hi < 0 || ii < hi {
				return nil, fmt.Errorf("%s:%d: cut <block comment> <ordinal> havoc <locals> invariant <expr>", path, ln+1)
			}
			c := &Clause{Kind: "cut", Label: fmt.Sprintf("cut:%s%s", f[0], f[1]), Raw: strings.TrimSpace(rest[ii+len(" invariant "):]), Line: ln + 1, Tags: cur.Tags, CutComment: f[0]}
			fmt.Sscanf(f[1], "%d", &c.CutOrd)
			for _, h := range strings.Split(rest[hi+len(" havoc "):ii], ",") {
				if h = strings.TrimSpace(h); h != "" {
					c.Havoc = append(c.Havoc, h)
				}
			}
			cur.Cuts = append(cur.Cuts, c)
			curClause = c
		case "atcall":
			// atcall <site substring> with (callee_p T, ...) requires[label] EXPR
			rest := strings.TrimSpace(strings.TrimPrefix(text, "atcall"))
			wi := strings.Index(rest, " with (")
			ri := strings.Index(rest, ") requires")
			if wi < 0 || ri < wi {
				return nil, fmt.Errorf("%s:%d: atcall <site> with (callee_p T, ...) requires[label] EXPR", path, ln+1)
			}
			c := &Clause{Kind: "atcall", Site: strings.TrimSpace(rest[:wi]), With: rest[wi+len(" with ("):ri], Line: ln + 1, Tags: cur.Tags}
			tail := strings.TrimSpace(rest[ri+len(") requires"):])
			c.Label = fmt.Sprintf("atcall%d", len(cur.AtCalls))
			if strings.HasPrefix(tail, "[") {
				j := strings.Index(tail, "]")
				c.Label, tail = tail[1:j], strings.TrimSpace(tail[j+1:])
				if k := strings.Index(c.Label, ";"); k >= 0 {
					_, c.Tags = parseTags("[" + c.Label[k+1:] + "]")
					c.Label = c.Label[:k]
				}
			}
			c.Raw = tail
			cur.AtCalls = append(cur.AtCalls, c)
			curClause = c
		case "forbid":
			// forbid <site substring> [label;tags]
			rest := strings.TrimSpace(strings.TrimPrefix(text, "forbid"))
			c := &Clause{Kind: "forbid", Line: ln + 1, Tags: cur.Tags, Label: fmt.Sprintf("forbid%d", len(cur.Forbids))}
			if i := strings.LastIndex(rest, " ["); i > 0 && strings.HasSuffix(rest, "]") {
				lab := rest[i+2 : len(rest)-1]
				rest = strings.TrimSpace(rest[:i])
				if k := strings.Index(lab, ";"); k >= 0 {
					_, c.Tags = parseTags("[" + lab[k+1:] + "]")
					lab = lab[:k]
				}
				c.Label = lab
			}
			c.Site = rest
			cur.Forbids = append(cur.Forbids, c)
		case "mark":
			cur.Marks = append(cur.Marks, strings.TrimSpace(strings.TrimPrefix(text, "mark")))
		case "running":
			rest := strings.TrimSpace(strings.TrimPrefix(text, "running"))
			label := fmt.Sprintf("running%d", len(cur.Running))
			if strings.HasPrefix(rest, "[") {
				j := strings.Index(rest, "]")
				label, rest = rest[1:j], strings.TrimSpace(rest[j+1:])
			}
			c := &Clause{Kind: "running", Label: label, Raw: rest, Line: ln + 1, Tags: cur.Tags}
			cur.Running = append(cur.Running, c)
			curClause = c
		case "maypanic":
			cur.MayPanic = true
		case "trustframe":
			// the modifies clause is what callers assume; it is not checked against the body
			cur.TrustFrame = true
		case "checks":
			// checks <kind>... [tags] : in this unit only implicit obligations of the listed kinds are
			// obligations (with these tags); every other implicit obligation of the unit is not checked
			rest, tags := parseTags(strings.TrimSpace(strings.TrimPrefix(text, "checks")))
			if cur.ImplicitOnly == nil {
				cur.ImplicitOnly = map[string][]string{}
			}
			for _, k := range strings.Fields(rest) {
				cur.ImplicitOnly[k] = tags
			}
			if len(strings.Fields(rest)) == 0 {
				cur.ImplicitOnly["-"] = nil
			}
		case "coupling":
			c := &Clause{Kind: "coupling", Label: "coupling", Raw: strings.TrimSpace(strings.TrimPrefix(text, "coupling")), Line: ln + 1, Tags: cur.Tags}
			cur.Coupling = c
			curClause = c
		case "model":
			rest := strings.TrimSpace(strings.TrimPrefix(text, "model"))
			i := strings.Index(rest, ":=")
			if i < 0 {
				return nil, fmt.Errorf("%s:%d: model NAME[(params)] := EXPR", path, ln+1)
			}
			head := strings.TrimSpace(rest[:i])
			name, params := head, ""
			if j := strings.Index(head, "("); j >= 0 {
				name, params = strings.TrimSpace(head[:j]), strings.TrimSuffix(head[j+1:], ")")
			}
			c := &Clause{Kind: "model", Label: name, Raw: strings.TrimSpace(rest[i+2:]), Line: ln + 1, Tags: cur.Tags}
			cur.Models[name] = c
			cur.ModelParams[name] = params
			curClause = c
		case "bounded":
			cur.Bounded = strings.TrimSpace(strings.TrimPrefix(text, "bounded"))
		case "params":
			cur.ParamsText = strings.TrimSpace(strings.TrimPrefix(text, "params"))
		case "vars":
			cur.VarsText = strings.TrimSpace(strings.TrimPrefix(text, "vars"))
		case "modifies":
			r := strings.TrimSpace(strings.TrimPrefix(text, "modifies"))
			if r == "*" {
				cur.ModifiesAll = true
			} else {
				c := &Clause{Kind: "modifies", Raw: r, Line: ln + 1, Tags: cur.Tags}
				cur.Modifies = append(cur.Modifies, c)
				curClause = c
			}
		case "loop":
			var n int
			rest := strings.TrimSpace(strings.TrimPrefix(text, "loop"))
			if _, err := fmt.Sscanf(rest, "%d", &n); err != nil {
				return nil, fmt.Errorf("%s:%d: loop needs an ordinal", path, ln+1)
			}
			rest = strings.TrimSpace(rest[strings.IndexAny(rest, " \t"):])
			m := labelRe.FindStringSubmatch(rest)
			if m == nil {
				return nil, fmt.Errorf("%s:%d: bad loop clause %q", path, ln+1, rest)
			}
			c := &Clause{Kind: m[1], Label: strings.Trim(m[2], "[]"), Raw: m[3], Loop: n, Line: ln + 1, Tags: cur.Tags}
			lsp := cur.Loops[n]
			if lsp == nil {
				lsp = &LoopSpec{}
				cur.Loops[n] = lsp
			}
			if i := strings.Index(c.Label, ";"); i >= 0 {
				_, c.Tags = parseTags("[" + c.Label[i+1:] + "]")
				c.Label = c.Label[:i]
			}
			if c.Kind == "invariant" {
				if c.Label == "" {
					c.Label = fmt.Sprintf("inv%d", len(lsp.Invariants))
				}
				lsp.Invariants = append(lsp.Invariants, c)
			} else if c.Kind == "step" {
				if c.Label == "" {
					c.Label = fmt.Sprintf("step%d", len(lsp.Steps))
				}
				lsp.Steps = append(lsp.Steps, c)
			} else if c.Kind == "exit" {
				if c.Label == "" {
					c.Label = fmt.Sprintf("exit%d", len(lsp.Exits))
				}
				lsp.Exits = append(lsp.Exits, c)
			} else {
				lsp.Decreases = c
			}
			curClause = c
		case "requires", "ensures", "assumes", "callers":
			m := labelRe.FindStringSubmatch(text)
			c := &Clause{Kind: m[1], Label: strings.Trim(m[2], "[]"), Raw: m[3], Line: ln + 1, Tags: cur.Tags}
			if c.Kind == "assumes" {
				c.Kind = "requires"
				c.Assumed = true
			}
			// per-clause tags: label like [name;C11,C05]
			if i := strings.Index(c.Label, ";"); i >= 0 {
				_, c.Tags = parseTags("[" + c.Label[i+1:] + "]")
				c.Label = c.Label[:i]
			}
			if c.Kind == "callers" {
				if c.Label == "" {
					c.Label = fmt.Sprintf("callers%d", len(cur.Callers))
				}
				cur.Callers = append(cur.Callers, c)
			} else if c.Kind == "requires" {
				if c.Label == "" {
					c.Label = fmt.Sprintf("pre%d", len(cur.Requires))
				}
				cur.Requires = append(cur.Requires, c)
			} else {
				if c.Label == "" {
					c.Label = fmt.Sprintf("post%d", len(cur.Ensures))
				}
				cur.Ensures = append(cur.Ensures, c)
			}
			curClause = c
		}
	}
	// "implements T": inherit the clauses of the type-level contract T
	for _, con := range ps.Contracts {
		if con.Implements == "" {
			continue
		}
		var tc *Contract
		for _, c := range ps.Contracts {
			if c.Kind == "type" && c.Key == con.Implements {
				tc = c
			}
		}
		if tc == nil {
			return nil, fmt.Errorf("%s:%d: %s implements unknown type contract %s", path, con.Line, con.Key, con.Implements)
		}
		cp := func(cs []*Clause) []*Clause {
			var out []*Clause
			for _, c := range cs {
				d := *c
				d.Label = tc.Key + "." + c.Label
				out = append(out, &d)
			}
			return out
		}
		con.Requires = append(cp(tc.Requires), con.Requires...)
		con.Ensures = append(cp(tc.Ensures), con.Ensures...)
		con.Modifies = append(cp(tc.Modifies), con.Modifies...)
		con.Running = append(cp(tc.Running), con.Running...)
		if len(con.Tags) == 0 {
			con.Tags = tc.Tags
		}
	}
	return ps, nil
}

var predRe = regexp.MustCompile(`^(\w+)\s*\(([^)]*)\)\s*([^:]*?)\s*(?::=\s*(.*))?$`)

func parsePred(s string, ghost bool) (*Pred, error) {
	m := predRe.FindStringSubmatch(s)
	if m == nil {
		return nil, fmt.Errorf("bad pred declaration %q", s)
	}
	p := &Pred{Name: m[1], Params: m[2], Ret: strings.TrimSpace(m[3]), Body: m[4], Ghost: ghost}
	if p.Ret == "" {
		p.Ret = "bool"
	}
	return p, nil
}

// ---------------------------------------------------------------------------
// sugar: "forall i, j :: body", "exists ...", "a ==> b"

func desugar(s string) string {
	s = strings.TrimSpace(s)
	// process parenthesised groups recursively
	var sb strings.Builder
	i := 0
	for i < len(s) {
		c := s[i]
		if j, ok := skipLit(s, i); ok {
			sb.WriteString(s[i : j+1])
			i = j + 1
			continue
		}
		if c == '(' || c == '[' || c == '{' {
			close := matchClose(s, i)
			inner := s[i+1 : close]
			sb.WriteByte(c)
			if c == '(' {
				sb.WriteString(desugarList(inner))
			} else {
				sb.WriteString(desugarList(inner))
			}
			sb.WriteByte(s[close])
			i = close + 1
			continue
		}
		sb.WriteByte(c)
		i++
	}
	return desugarFlat(sb.String())
}

// skipLit: if s[i] starts a string or rune literal, returns the index of its closing quote.
func skipLit(s string, i int) (int, bool) {
	q := s[i]
	if q != '"' && q != '\'' {
		return i, false
	}
	if q == '\'' {
		// a rune literal is short: 'x', '\n', '\''
		j := i + 1
		if j < len(s) && s[j] == '\\' {
			j++
		}
		j++
		if j < len(s) && s[j] == '\'' {
			return j, true
		}
		return i, false
	}
	j := i + 1
	for j < len(s) && s[j] != '"' {
		if s[j] == '\\' {
			j++
		}
		j++
	}
	if j >= len(s) {
		j = len(s) - 1
	}
	return j, true
}

func matchClose(s string, i int) int {
	depth := 0
	for j := i; j < len(s); j++ {
		if e, ok := skipLit(s, j); ok {
			j = e
			continue
		}
		switch s[j] {
		case '(', '[', '{':
			depth++
		case ')', ']', '}':
			depth--
			if depth == 0 {
				return j
			}
		}
	}
	panic("unbalanced parentheses in contract expression: " + s)
}

// desugarList handles comma separated items inside a group.
func desugarList(s string) string {
	parts := splitTop(s, ",")
	// a quantifier "forall i, j :: body" contains commas in its binder: rejoin
	var out []string
	for k := 0; k < len(parts); k++ {
		p := parts[k]
		tp := strings.TrimSpace(p)
		if (strings.HasPrefix(tp, "forall ") || strings.HasPrefix(tp, "exists ")) && !strings.Contains(p, "::") {
			// binder continues
			for k+1 < len(parts) && !strings.Contains(p, "::") {
				k++
				p += "," + parts[k]
			}
			// everything to the end of the group belongs to the quantifier body
			for k+1 < len(parts) {
				k++
				p += "," + parts[k]
			}
		} else if strings.HasPrefix(tp, "forall ") || strings.HasPrefix(tp, "exists ") {
			for k+1 < len(parts) {
				k++
				p += "," + parts[k]
			}
		}
		out = append(out, desugar(p))
	}
	return strings.Join(out, ",")
}

func splitTop(s, sep string) []string {
	var parts []string
	depth := 0
	last := 0
	for i := 0; i < len(s); i++ {
		if e, ok := skipLit(s, i); ok {
			i = e
			continue
		}
		switch s[i] {
		case '(', '[', '{':
			depth++
		case ')', ']', '}':
			depth--
		default:
			if depth == 0 && strings.HasPrefix(s[i:], sep) {
				parts = append(parts, s[last:i])
				last = i + len(sep)
				i += len(sep) - 1
			}
		}
	}
	parts = append(parts, s[last:])
	return parts
}

// desugarFlat handles quantifiers and ==> at the top level of s (groups are
// already processed).
func desugarFlat(s string) string {
	ts := strings.TrimSpace(s)
	for _, q := range []string{"forall", "exists"} {
		if strings.HasPrefix(ts, q+" ") {
			idx := strings.Index(ts, "::")
			if idx < 0 {
				panic("quantifier without '::' in " + s)
			}
			binder := strings.TrimSpace(ts[len(q):idx])
			body := desugarFlat(ts[idx+2:])
			// binder: "i, j" (ints) or "i int, v value.Type"
			var params []string
			for _, b := range strings.Split(binder, ",") {
				b = strings.TrimSpace(b)
				if !strings.Contains(b, " ") {
					b += " int"
				}
				params = append(params, b)
			}
			return fmt.Sprintf("__%s(func(%s) bool { return %s })", q, strings.Join(params, ", "), body)
		}
	}
	// implication: lowest precedence, right associative
	parts := splitTop(ts, "==>")
	if len(parts) > 1 {
		rhs := desugarFlat(strings.Join(parts[1:], "==>"))
		return fmt.Sprintf("__imp(%s, %s)", strings.TrimSpace(parts[0]), rhs)
	}
	// quantifier appearing after && / || at top level: "A && forall i :: B"
	for _, q := range []string{"forall ", "exists "} {
		if i := indexTop(ts, q); i > 0 {
			return ts[:i] + desugarFlat(ts[i:])
		}
	}
	return ts
}

func indexTop(s, sub string) int {
	depth := 0
	for i := 0; i < len(s); i++ {
		if e, ok := skipLit(s, i); ok {
			i = e
			continue
		}
		switch s[i] {
		case '(', '[', '{':
			depth++
		case ')', ']', '}':
			depth--
		default:
			if depth == 0 && strings.HasPrefix(s[i:], sub) && (i == 0 || !isIdentChar(s[i-1])) {
				return i
			}
		}
	}
	return -1
}

func isIdentChar(c byte) bool {
	return c == '_' || (c >= 'a' && c <= 'z') || (c >= 'A' && c <= 'Z') || (c >= '0' && c <= '9')
}

// ---------------------------------------------------------------------------
// overlay generation

const helperSrc = `
func old[T any](x T) T { panic("spec") }
func iter[T any](x T) T { panic("spec") }
func marked[T any](x T) T { panic("spec") }
func __forall(f any) bool { panic("spec") }
func __exists(f any) bool { panic("spec") }
func __imp(a, b bool) bool { panic("spec") }
func elems[T any](s []T) []T { panic("spec") }
func allelems[T any](s []T) []T { panic("spec") }
func arr[T any](s []T) int { panic("spec") }
func off[T any](s []T) int { panic("spec") }
func ref(p any) int { panic("spec") }
func fresh(p any) bool { panic("spec") }
func allocated(p any) bool { panic("spec") }
func same[T any](a, b []T) bool { panic("spec") }
func ite[T any](c bool, a, b T) T { panic("spec") }
func dyntype(x any) int { panic("spec") }
func typeid[T any]() int { panic("spec") }
func mapdom[K comparable, V any](m map[K]V, k K) bool { panic("spec") }
func mapof[K comparable, V any](m map[K]V) map[K]V { panic("spec") }
func mapkept[K comparable, V any](m map[K]V) bool { panic("spec") }
func fnid(f any) int { panic("spec") }
func strat(s string, i int) int { panic("spec") }
func bits(f float64) uint64 { panic("spec") }
func isnan(f float64) bool { panic("spec") }
func feq(a, b float64) bool { panic("spec") }
func fsame(a, b float64) bool { panic("spec") }
func atoiOK(s string) bool { panic("spec") }
func imhas(m any, k uint64) bool { panic("spec") }
func imrow(m any) any { panic("spec") }
func imget[V any](m any, k uint64) V { panic("spec") }
func parseFloatOK(s string) bool { panic("spec") }
func eqv[T any](a, b T) bool { panic("spec") }
func field[T any](x any, name string) T { panic("spec") }
func fst2[A, B any](a A, b B) A { panic("spec") }
func snd2[A, B any](a A, b B) B { panic("spec") }
`

type qualifier struct {
	self  *types.Package
	used  map[string]string // name -> path
}

func (q *qualifier) f(p *types.Package) string {
	if p == q.self {
		return ""
	}
	q.used[p.Name()] = p.Path()
	return p.Name()
}

// unitSig describes the Go-level signature used for a contract's clause functions.
type unitSig struct {
	params  []string // "name type"
	names   []string
	results []string
	rnames  []string
	locals  []string // for loop clauses
}

func (e *Engine) sigForFunc(fn *ssa.Function, q *qualifier) *unitSig {
	us := &unitSig{}
	seen := map[string]bool{}
	sig := fn.Signature
	add := func(name string, t types.Type) {
		if name == "" || name == "_" {
			name = fmt.Sprintf("_p%d", len(us.names))
		}
		seen[name] = true
		us.names = append(us.names, name)
		us.params = append(us.params, name+" "+types.TypeString(t, q.f))
	}
	if sig.Recv() != nil {
		n := sig.Recv().Name()
		if n == "" || n == "_" {
			n = "recv"
		}
		add(n, sig.Recv().Type())
	}
	for i := 0; i < sig.Params().Len(); i++ {
		p := sig.Params().At(i)
		t := p.Type()
		add(p.Name(), t)
	}
	for _, fv := range fn.FreeVars {
		add(fv.Name(), fv.Type().(*types.Pointer).Elem())
	}
	res := sig.Results()
	for i := 0; i < res.Len(); i++ {
		n := res.At(i).Name()
		if n == "" || n == "_" {
			if res.Len() == 1 {
				n = "result"
			} else {
				n = fmt.Sprintf("result%d", i)
			}
		}
		us.rnames = append(us.rnames, n)
		us.results = append(us.results, n+" "+types.TypeString(res.At(i).Type(), q.f))
		seen[n] = true
	}
	count := map[string]int{}
	for _, l := range fn.Locals {
		n := l.Comment
		if n == "" || !isGoIdent(n) {
			continue
		}
		count[n]++
		if count[n] > 1 {
			// later declarations of the same name: name__2, name__3, ... (in declaration order)
			n = fmt.Sprintf("%s__%d", n, count[n])
		}
		if seen[n] {
			continue
		}
		et := l.Type().(*types.Pointer).Elem()
		ts := types.TypeString(et, q.f)
		if strings.Contains(ts, "$") || strings.Contains(ts, "deferStack") {
			continue
		}
		seen[n] = true
		us.locals = append(us.locals, n+" "+ts)
	}
	return us
}

func isGoIdent(s string) bool {
	if s == "" {
		return false
	}
	for i := 0; i < len(s); i++ {
		if !isIdentChar(s[i]) || (i == 0 && s[i] >= '0' && s[i] <= '9') {
			return false
		}
	}
	return true
}

// GenerateOverlay produces the Go source of the overlay file for a package.
func (e *Engine) GenerateOverlay(ps *PkgSpec, pkg *types.Package, fnByKey map[string]*ssa.Function) (string, error) {
	q := &qualifier{self: pkg, used: map[string]string{}}
	var body strings.Builder
	seq := 0
	var errs []string
	emit := func(c *Clause, con *Contract, params []string, ret string) {
		seq++
		c.GoName = fmt.Sprintf("__c%d", seq)
		if ps.byGoName == nil {
			ps.byGoName = map[string]*Clause{}
			ps.conOf = map[*Clause]*Contract{}
		}
		ps.byGoName[c.GoName] = c
		ps.conOf[c] = con
		func() {
			defer func() {
				if r := recover(); r != nil {
					errs = append(errs, fmt.Sprintf("%s:%d: %v", ps.File, c.Line, r))
				}
			}()
			if c.Kind == "modifies" {
				items := splitTop(c.Raw, ",")
				var ds []string
				for _, it := range items {
					ds = append(ds, desugar(it))
				}
				c.Text = strings.Join(ds, ", ")
				fmt.Fprintf(&body, "func %s(%s) []any { return []any{%s} }\n", c.GoName, strings.Join(params, ", "), c.Text)
				return
			}
			c.Text = desugar(c.Raw)
			if c.Unbound {
				fmt.Fprintf(&body, "func %s(%s) %s { panic(\"unbound\") }\n", c.GoName, strings.Join(params, ", "), ret)
				return
			}
			fmt.Fprintf(&body, "func %s(%s) %s { return %s }\n", c.GoName, strings.Join(params, ", "), ret, c.Text)
		}()
	}
	for _, p := range ps.Preds {
		if p.Ghost {
			fmt.Fprintf(&body, "func %s(%s) %s { panic(\"ghost\") }\n", p.Name, p.Params, p.Ret)
			if ps := splitTop(p.Params, ","); len(ps) == 2 {
				// whole-row location of a two-argument ghost function, for modifies clauses
				fmt.Fprintf(&body, "func %s_row(%s) int { panic(\"ghost\") }\n", p.Name, strings.TrimSpace(ps[0]))
			}
			continue
		}
		func() {
			defer func() {
				if r := recover(); r != nil {
					errs = append(errs, fmt.Sprintf("%s:%d: %v", ps.File, p.Line, r))
				}
			}()
			fmt.Fprintf(&body, "func %s(%s) %s { return %s }\n", p.Name, p.Params, p.Ret, desugar(p.Body))
		}()
	}
	for _, c := range append(append([]*Clause{}, ps.GlobalInv...), ps.Axioms...) {
		emit(c, nil, nil, "bool")
	}
	for _, con := range ps.Contracts {
		var us *unitSig
		switch con.Kind {
		case "func":
			fn := fnByKey[con.Key]
			if fn == nil {
				fn = e.viewTarget(pkg, con.Key)
				if fn != nil {
					con.View = true
				}
			}
			if fn == nil {
				errs = append(errs, fmt.Sprintf("%s:%d: contract target %q not found", ps.File, con.Line, con.Key))
				continue
			}
			us = e.sigForFunc(fn, q)
			if con.Implements != "" {
				// parameters take the names used by the type-level contract
				var tc *Contract
				for _, c := range ps.Contracts {
					if c.Kind == "type" && c.Key == con.Implements {
						tc = c
					}
				}
				if tc != nil {
					tn := strings.Split(tc.ParamsText, ",")
					off := 0
					if fn.Signature.Recv() != nil {
						off = 1
					}
					for i := 0; i < fn.Signature.Params().Len(); i++ {
						if i+1 < len(tn) {
							nm := strings.TrimSpace(tn[i+1])
							old := us.names[off+i]
							us.names[off+i] = nm
							us.params[off+i] = nm + strings.TrimPrefix(us.params[off+i], old)
						}
					}
				}
				us.names = append([]string{"self"}, us.names...)
				selfT := con.Implements
				if i := strings.Index(selfT, "."); i >= 0 {
					selfT = selfT[:i]
				}
				us.params = append([]string{"self " + selfT}, us.params...)
			}
		case "type":
			var err error
			us, err = e.sigForType(con, pkg, q)
			if err != nil {
				errs = append(errs, fmt.Sprintf("%s:%d: %v", ps.File, con.Line, err))
				continue
			}
		case "refine":
			base := []string{con.RefVar + " " + con.RefType}
			if con.Coupling != nil {
				emit(con.Coupling, con, base, "bool")
			}
			var mnames []string
			for n := range con.Models {
				mnames = append(mnames, n)
			}
			sort.Strings(mnames)
			for _, n := range mnames {
				ret := e.ghostRetType(con.RefIface, n)
				if ret == "" {
					errs = append(errs, fmt.Sprintf("%s:%d: model %s: no ghost function of that name for %s", ps.File, con.Line, n, con.RefIface))
					continue
				}
				params := base
				if con.ModelParams[n] != "" {
					params = append(append([]string{}, base...), con.ModelParams[n])
				}
				emit(con.Models[n], con, params, ret)
			}
			continue
		case "lemma":
			us = &unitSig{}
			for _, v := range splitTop(con.VarsText, ",") {
				v = strings.TrimSpace(v)
				if v == "" {
					continue
				}
				us.params = append(us.params, v)
				us.names = append(us.names, strings.Fields(v)[0])
			}
		}
		con.ParamNames = us.names
		con.ResultNames = us.rnames
		con.ParamTypes = us.params
		for _, c := range con.Requires {
			emit(c, con, us.params, "bool")
		}
		for _, c := range con.Callers {
			emit(c, con, us.params, "bool")
		}
		for _, c := range con.Modifies {
			emit(c, con, us.params, "")
		}
		all := append(append([]string{}, us.params...), us.results...)
		for _, c := range con.Ensures {
			emit(c, con, all, "bool")
		}
		loopParams := append(append([]string{}, all...), us.locals...)
		var lks []int
		for k := range con.Loops {
			lks = append(lks, k)
		}
		sort.Ints(lks)
		for _, c := range con.Cuts {
			emit(c, con, loopParams, "bool")
		}
		for _, c := range con.Running {
			emit(c, con, us.params, "bool")
		}
		for _, c := range con.AtCalls {
			lp := loopParams
			if fn := fnByKey[con.Key]; fn != nil {
				// plain local names mean the declaration visible at the call site
				if sites := e.callSitePositions(fn, c.Site); len(sites) > 0 {
					lp = append([]string{}, loopParams...)
					for i, prm := range lp {
						f := strings.SplitN(prm, " ", 2)
						if len(f) != 2 || strings.Contains(f[0], "__") {
							continue
						}
						if v := scopedLocal(fn, f[0], sites[0]); v != nil {
							isParam := false
							for _, pn := range us.names {
								if pn == f[0] {
									isParam = true
								}
							}
							if !isParam {
								lp[i] = f[0] + " " + types.TypeString(v.Type(), q.f)
							}
						}
					}
				}
			}
			ps := append(append([]string{}, lp...), splitTop(c.With, ",")...)
			emit(c, con, ps, "bool")
		}
		for _, k := range lks {
			ls := con.Loops[k]
			for _, c := range ls.Invariants {
				emit(c, con, loopParams, "bool")
			}
			for _, c := range ls.Steps {
				emit(c, con, loopParams, "bool")
			}
			for _, c := range ls.Exits {
				emit(c, con, loopParams, "bool")
			}
			if ls.Decreases != nil {
				emit(ls.Decreases, con, loopParams, "int")
			}
		}
	}
	if len(errs) > 0 {
		return "", fmt.Errorf("%s", strings.Join(errs, "\n"))
	}
	// imports: those the qualifier saw plus those mentioned textually as "name."
	text := body.String()
	for _, a := range ps.Abstract {
		if a == "bytecode.Type" {
			// the record-view helpers below mention the package
			text += "\n// bytecode.Type\n"
		}
	}
	var sb strings.Builder
	fmt.Fprintf(&sb, "//go:build verif\n\npackage %s\n\n", pkg.Name())
	imports := map[string]string{}
	for n, p := range q.used {
		imports[n] = p
	}
	for _, imp := range pkg.Imports() {
		if regexp.MustCompile(`\b` + regexp.QuoteMeta(imp.Name()) + `\.`).MatchString(text) {
			imports[imp.Name()] = imp.Path()
		}
	}
	for _, extra := range e.extraImports[ps.Path] {
		imports[extra[0]] = extra[1]
	}
	names := make([]string, 0, len(imports))
	for n := range imports {
		names = append(names, n)
	}
	sort.Strings(names)
	for _, n := range names {
		if regexp.MustCompile(`\b` + regexp.QuoteMeta(n) + `\.`).MatchString(text) {
			fmt.Fprintf(&sb, "import %s %q\n", n, imports[n])
		}
	}
	sb.WriteString(helperSrc)
	for _, a := range ps.Abstract {
		if a == "bytecode.Type" {
			sb.WriteString("func bcop(i bytecode.Type) bytecode.OpCode { panic(\"spec\") }\nfunc bck(i bytecode.Type, sel int) uint64 { panic(\"spec\") }\nfunc bca(i bytecode.Type, sel int) int { panic(\"spec\") }\nfunc bcmk(op bytecode.OpCode, k0 uint64, a0 int, k1 uint64, a1 int, k2 uint64, a2 int) bytecode.Type { panic(\"spec\") }\n")
		}
	}
	sb.WriteString(text)
	return sb.String(), nil
}

// sigForType: "type Parser" (named func type) or "type RollbackLexer.Next".
func (e *Engine) sigForType(con *Contract, pkg *types.Package, q *qualifier) (*unitSig, error) {
	key := con.Key
	tname, mname := key, ""
	if i := strings.Index(key, "."); i >= 0 {
		tname, mname = key[:i], key[i+1:]
	}
	obj := pkg.Scope().Lookup(tname)
	if obj == nil {
		return nil, fmt.Errorf("type %s not found", tname)
	}
	var sig *types.Signature
	us := &unitSig{}
	names := strings.Split(con.ParamsText, ",")
	for i := range names {
		names[i] = strings.TrimSpace(names[i])
	}
	if mname == "" {
		s, ok := obj.Type().Underlying().(*types.Signature)
		if !ok {
			return nil, fmt.Errorf("%s is not a function type", tname)
		}
		sig = s
		us.names = append(us.names, pick(names, 0, "self"))
		us.params = append(us.params, us.names[0]+" "+types.TypeString(obj.Type(), q.f))
	} else {
		it, ok := obj.Type().Underlying().(*types.Interface)
		if !ok {
			return nil, fmt.Errorf("%s is not an interface", tname)
		}
		for i := 0; i < it.NumMethods(); i++ {
			if it.Method(i).Name() == mname {
				sig = it.Method(i).Type().(*types.Signature)
			}
		}
		if sig == nil {
			return nil, fmt.Errorf("method %s not in %s", mname, tname)
		}
		us.names = append(us.names, pick(names, 0, "self"))
		us.params = append(us.params, us.names[0]+" "+types.TypeString(obj.Type(), q.f))
	}
	for i := 0; i < sig.Params().Len(); i++ {
		n := pick(names, i+1, sig.Params().At(i).Name())
		if n == "" || n == "_" {
			n = fmt.Sprintf("_p%d", i)
		}
		us.names = append(us.names, n)
		us.params = append(us.params, n+" "+types.TypeString(sig.Params().At(i).Type(), q.f))
	}
	for i := 0; i < sig.Results().Len(); i++ {
		n := sig.Results().At(i).Name()
		if n == "" || n == "_" {
			if sig.Results().Len() == 1 {
				n = "result"
			} else {
				n = fmt.Sprintf("result%d", i)
			}
		}
		us.rnames = append(us.rnames, n)
		us.results = append(us.results, n+" "+types.TypeString(sig.Results().At(i).Type(), q.f))
	}
	return us, nil
}

func pick(names []string, i int, def string) string {
	if i < len(names) && names[i] != "" {
		return names[i]
	}
	return def
}
