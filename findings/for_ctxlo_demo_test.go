package main

// Demonstration of the defect found as failed obligation
//   types.node.(For).byteCode#atcall[outer_lo_inherited@f.Body.byteCode(...)]
// A `return` inside the inner of two nested for loops deletes only the inner loop's iterator
// contexts: the outer loop's context stays registered after the statement has finished.

import (
	"reflect"
	"testing"
	"unsafe"

	"github.com/paulsonkoly/calc/builtin"
	"github.com/paulsonkoly/calc/memory"
	"github.com/paulsonkoly/calc/parser"
	"github.com/paulsonkoly/calc/types/bytecode"
	"github.com/paulsonkoly/calc/types/compresult"
	"github.com/paulsonkoly/calc/types/dbginfo"
	"github.com/paulsonkoly/calc/types/node"
	"github.com/paulsonkoly/calc/types/value"
	"github.com/paulsonkoly/calc/vm"
)

func liveContexts(v *vm.Type) int {
	f := reflect.ValueOf(v).Elem().FieldByName("main")
	mainCtx := reflect.NewAt(f.Type(), unsafe.Pointer(f.UnsafeAddr())).Elem().Elem()
	c := mainCtx.FieldByName("children")
	children := reflect.NewAt(c.Type(), unsafe.Pointer(c.UnsafeAddr())).Elem()
	return int(children.MethodByName("Len").Call(nil)[0].Int())
}

func TestReturnInInnerLoopLeavesNoContext(t *testing.T) {
	m := memory.New()
	cs := []bytecode.Type{}
	ds := []value.Type{}
	dbg := make(dbginfo.Type)
	cr := compresult.Type{CS: &cs, DS: &ds, Dbg: &dbg}
	builtin.Load(cr)
	v := vm.New(m, cr)
	src := []string{
		"f = () -> {\n for i <- fromto(0, 3) {\n  for j <- fromto(0, 3) {\n   return 7\n  }\n }\n}",
		"f()",
	}
	for _, s := range src {
		ast, err := parser.Parse(s)
		if err != nil {
			t.Fatal(err)
		}
		for _, stmt := range ast {
			stmt = stmt.STRewrite(node.SymTbl{})
			node.ByteCode(stmt, cr)
			if _, err := v.Run(true); err != nil {
				t.Fatal(err)
			}
		}
	}
	if n := liveContexts(v); n != 0 {
		t.Fatalf("%d iterator context(s) still registered after the statement finished", n)
	}
}
