#!/bin/sh
# Demonstration of the defect found as failed obligation
#   cmd.calc.main#precondition[ByteCode:resolved@node.ByteCode(n, cr)]
# -eval compiled the tree without resolving names: a function with a parameter fails under -eval
# (RUNTIME ERROR: nil error) and works when the same statement is read from a file.
# usage: eval_mode_demo.sh <repo-root>   exit 0 = both modes agree
export GOFLAGS=-mod=mod GOPROXY=off GOSUMDB=off GOTOOLCHAIN=local
cd "${1:-/repo}" || exit 2
prog='{
 f = (n) -> n + 1
 write(toa(f(2)))
}'
d=$(mktemp -d); printf '%s\n' "$prog" > $d/p.calc
a=$(go run ./cmd/calc -eval "$prog" 2>&1 | head -1); b=$(go run ./cmd/calc $d/p.calc 2>&1 | head -1); rm -rf $d
echo "-eval: $a"; echo "file : $b"
case "$a" in 3*) exit 0;; *) exit 1;; esac
