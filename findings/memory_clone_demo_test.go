package memory

// Demonstrations (run via go test -overlay against the real package) of two
// defects in (*Type).Clone found as failed obligations
//   memory.(*Type).Clone#ensures[copy] / [room] / [wf]      (recycled memory too small)
//   memory.(*Type).Clone#ensures[closure_separated]         (closure stack shared with spare capacity)

import (
	"testing"

	"github.com/paulsonkoly/calc/types/value"
)

// A recycled memory whose stale sp is small is not grown enough: the top frame is truncated.
func TestCloneReuseCopiesWholeFrame(t *testing.T) {
	m := New()
	const locals = 300
	m.PushFrame(0, locals)
	for i := 0; i < locals; i++ {
		m.Set(i, value.NewInt(i+1))
	}
	reuse := New() // sp == 0, empty stack: "a destroyed context is in whatever state it was left in"
	for i := 0; i < 130; i++ { // the recycled memory once held 130 values: its stack has 256 slots
		reuse.Push(value.NewInt(0))
	}
	for i := 0; i < 130; i++ {
		reuse.Pop()
	}
	c := m.Clone(reuse)
	if c.sp > len(c.stack) {
		t.Fatalf("clone has sp=%d beyond its stack of %d slots", c.sp, len(c.stack))
	}
	for i := 0; i < locals; i++ {
		got, _ := c.LookUpLocal(i).ToInt()
		if got != i+1 {
			t.Fatalf("local %d of the forked frame is %d, want %d", i, got, i+1)
		}
	}
}

// Parent and clone append to one closure backing array when it has spare capacity.
func TestCloneClosureNotShared(t *testing.T) {
	m := New()
	m.PushClosure(Frame{value.NewInt(1)})
	m.PushClosure(Frame{value.NewInt(2)})
	m.PopClosure() // len 1, cap >= 2
	c := m.Clone(nil)
	c.PushClosure(Frame{value.NewInt(100)})
	m.PushClosure(Frame{value.NewInt(10)})
	got, _ := c.LookUpClosure(0).ToInt()
	if got != 100 {
		t.Fatalf("clone's captured variable reads %d after the parent pushed its own closure frame, want 100", got)
	}
}
