package lexer

// Demonstration of the open finding lexer.(*Lexer).Next#ensures[text_is_span_strlit]:
// the text of a string-literal token is not the input between its span bounds when the literal
// contains the two characters backslash-n.

import "testing"

func TestStringLiteralTextIsSpan(t *testing.T) {
	input := "\"a\\nb\""
	l := NewLexer(input)
	if !l.Next() {
		t.Fatal("no token")
	}
	tok := l.Token
	if tok.Value != input[tok.From():tok.To()] {
		t.Fatalf("token text %q differs from input[%d:%d] = %q", tok.Value, tok.From(), tok.To(), input[tok.From():tok.To()])
	}
}
