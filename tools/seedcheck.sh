#!/bin/bash
# Confirms a seeded breaking change and runs the registered checks against it.
#   tools/seedcheck.sh <seed-id> [<property> ...]      (default property: the seed's own)
# 1. scratch worktree of /repo HEAD under /tmp: apply the patch, build, run the pinned suite
#    (the change must compile and keep the suite green), run the seed's demo on the changed and on
#    the unchanged tree (the change must manifest only on the changed tree); worktree removed.
# 2. /repo working tree: apply the patch, run ./check.sh <property> quick for each property, record
#    exit status and VIOLATION lines, restore the tree.
# Result: /verif/seeded/<seed-id>/meta.json
set -u
export GOFLAGS=-mod=mod GOPROXY=off GOSUMDB=off GOTOOLCHAIN=local
seed=$1; shift
sd=/verif/seeded/$seed
own=${seed%%-*}
props=("$@"); [ ${#props[@]} -eq 0 ] && props=($own)
wt=/tmp/seedwt_$seed
if [ "${SEED_CLONE:-0}" = 1 ]; then
  # independent plain copy of /repo HEAD (no shared git state: several seeds may run at once)
  rm -rf $wt; mkdir -p $wt; git -C /repo archive HEAD | tar -x -C $wt; (cd $wt && git init -q) || exit 2
else
rm -rf $wt; git -C /repo worktree prune
git -C /repo worktree add -q --detach $wt HEAD || exit 2
fi
applies=no; builds=no; suite=no; demo_changed="n/a"; demo_clean="n/a"
pkgdir() { # package clause of a demo test -> directory in the repository
  case "$1" in
    main_test|main) echo cmd/calc;; parser|parser_test) echo parser;; node|node_test) echo types/node;;
    value|value_test) echo types/value;; lexer|lexer_test) echo lexer;; combinator|combinator_test) echo combinator;;
    memory|memory_test) echo memory;; vm|vm_test) echo vm;; bytecode|bytecode_test) echo types/bytecode;; *) echo "";;
  esac
}
rundemo() { # $1 = tree; prints the demo's exit status (0 = behaves as the property demands)
  exp=""
  [ -f $sd/expected.txt ] && exp=$sd/expected.txt
  [ -z "$exp" ] && [ -f $sd/expected.out ] && exp=$sd/expected.out
  if [ -f $sd/demo.calc ] && [ -n "$exp" ]; then
    inp=/dev/null; [ -f $sd/stdin.txt ] && inp=$sd/stdin.txt
    (cd $1 && timeout 180 go run ./cmd/calc $sd/demo.calc < $inp 2>&1 | diff -q - $exp >/dev/null 2>&1); echo $?
  elif [ -f $sd/run_demo.sh ]; then
    (timeout 180 sh $sd/run_demo.sh $1 >/tmp/seedwt_demo_$seed.out 2>&1); echo $?
  elif ls $sd/*_test.go >/dev/null 2>&1; then
    rc=0
    for t in $sd/*_test.go; do
      d=$(pkgdir $(grep -m1 '^package' $t | awk '{print $2}'))
      [ -z "$d" ] && { echo "nopkg"; return; }
      cp $t $1/$d/zz_seed_demo_test.go
      (cd $1 && timeout 300 go test -vet=off -count=1 ./$d >/tmp/seedwt_demo_$seed.out 2>&1) || rc=1
      rm -f $1/$d/zz_seed_demo_test.go
    done
    echo $rc
  else
    echo "manual"
  fi
}
demo_clean=$(rundemo $wt)
if git -C $wt apply $sd/patch.diff 2>/dev/null; then
  applies=yes
  if (cd $wt && go build ./... 2>/dev/null); then builds=yes; fi
  if (cd $wt && go test -vet=off -count=1 ./... >/tmp/seedwt_suite_$seed.out 2>&1); then suite=pass; else suite=FAIL; fi
  demo_changed=$(rundemo $wt)
fi
if [ "${SEED_CLONE:-0}" = 1 ]; then rm -rf $wt; else git -C /repo worktree remove --force $wt; rm -rf $wt; fi
rm -f /tmp/seedwt_demo_$seed.out /tmp/seedwt_suite_$seed.out
# checks on /repo itself
results="{"
sep=""
if [ "${SEED_CLONE:-0}" = 1 ] && [ $applies = yes ]; then
  # parallel mode: the checks run against a private copy of /repo's working tree with the patch applied
  # (govc -repo <copy>); /repo itself is not touched, so several seeds can be checked at the same time
  cl=/tmp/seedrepo_$seed; rm -rf $cl; mkdir -p $cl; rsync -a --exclude .git /repo/ $cl/
  if (cd $cl && git init -q && git apply $sd/patch.diff); then
    for p in "${props[@]}"; do
      out=$(cd /verif && /verif/bin/govc -repo $cl -prop $p -tier quick -work /tmp/seedwork_$seed -evidence /tmp/seedcheck_evidence_$seed -verif /verif 2>&1); rc=$?
      viol=$(echo "$out" | grep -c "^VIOLATION")
      first=$(echo "$out" | grep "^VIOLATION" | head -3 | sed -E 's/.*obligation=//; s/ no-failing-input-found//' | tr '\n' ';' | sed 's/"/\\"/g')
      results="$results$sep\"$p\": {\"exit\": $rc, \"violations\": $viol, \"obligations\": \"$first\"}"
      sep=", "
    done
  else
    results="$results\"error\": \"patch not applied to the copy\""
  fi
  rm -rf $cl /tmp/seedwork_$seed /tmp/seedcheck_evidence_$seed
elif [ $applies = yes ] && git -C /repo diff --quiet && git -C /repo apply $sd/patch.diff; then
  for p in "${props[@]}"; do
    # same command as ./check.sh <p> quick, but the evidence of a run on a changed tree must not
    # replace the committed evidence of the unchanged tree
    out=$(cd /verif && /verif/bin/govc -repo /repo -prop $p -tier quick -work /verif/work -evidence /tmp/seedcheck_evidence -verif /verif 2>&1); rc=$?
    viol=$(echo "$out" | grep -c "^VIOLATION")
    first=$(echo "$out" | grep "^VIOLATION" | head -3 | sed -E 's/.*obligation=//; s/ no-failing-input-found//' | tr '\n' ';' | sed 's/"/\\"/g')
    results="$results$sep\"$p\": {\"exit\": $rc, \"violations\": $viol, \"obligations\": \"$first\"}"
    sep=", "
  done
  git -C /repo checkout -- .
else
  results="$results\"error\": \"patch not applied to /repo (dirty tree or conflict)\""
fi
results="$results}"
what=$(head -3 $sd/README* 2>/dev/null | tr '\n' ' ' | cut -c1-400 | sed 's/\\/\\\\/g; s/"/\\"/g; s/\t/ /g')
cat > $sd/meta.json <<EOF
{"seed": "$seed", "property": "$own",
 "what": "$what",
 "rebased": $( [ -f $sd/REBASED.txt ] && echo true || echo false ),
 "confirmed_by": "tools/seedcheck.sh: scratch worktree /tmp/seedwt_$seed of /repo HEAD, patch applied, go build ./..., pinned go test suite, demo on changed and unchanged tree; then patch applied to /repo, ./check.sh quick, tree restored",
 "applies": "$applies", "builds": "$builds", "suite": "$suite",
 "demo_exit_unchanged_tree": "$demo_clean", "demo_exit_changed_tree": "$demo_changed",
 "checks": $results}
EOF
cat $sd/meta.json | tr '\n' ' ' | cut -c1-700; echo
