#!/usr/bin/env python3
"""Rebuilds ledger.json from the evidence files of quick runs on the unchanged tree (used after the
checks were run in parallel: govc -write-ledger is a read-modify-write of one file)."""
import json, glob, sys
led = json.load(open('/verif/ledger.json'))
for f in sorted(glob.glob('/verif/evidence/C*.json')):
    d = json.load(open(f))
    pid = d['property_id']
    if d['tier'] != 'quick' or d['violations'] != 0:
        print('skip', pid, d['tier'], d['violations']); continue
    names = []
    for o in d['coverage']['all_obligations']:
        if isinstance(o, dict):
            if o.get('status') == 'unsat': names.append(o['name'])
        else:
            sys.exit('unexpected evidence format')
    if len(names) != d['coverage']['discharged']:
        print('MISMATCH', pid, len(names), d['coverage']['discharged'])
    led[pid] = names
json.dump(led, open('/verif/ledger.json', 'w'), indent=1)
# hashes of the pinned tree's Go files (as the engine computes them): an obligation of the ledger that gets no solver
# answer while its package and all contract files still have these hashes is reported as undecided, not as a violation
import hashlib, os
base = {}
for root, dirs, files in os.walk('/repo'):
    dirs[:] = [d for d in dirs if d != '.git']
    for f in files:
        if f.endswith('.go'):
            p = os.path.join(root, f)
            base[os.path.relpath(p, '/repo')] = hashlib.sha256(open(p, 'rb').read()).hexdigest()[:16]
json.dump(base, open('/verif/baseline_hashes.json', 'w'), indent=1, sort_keys=True)
print('ledger rebuilt')
