#!/usr/bin/env python3
"""Sanity checks before committing /verif: /repo clean, MANIFEST valid, evidence files are records
of runs on the unchanged tree (quick tier, every claimed obligation discharged, no violation)."""
import json, glob, subprocess, sys
bad = 0
st = subprocess.run(["git", "-C", "/repo", "status", "--short"], capture_output=True, text=True).stdout.strip()
if st:
    print("REPO DIRTY:\n" + st); bad += 1
m = json.load(open("/verif/MANIFEST.json"))
ids = [c["property_id"] for c in m["checks"]]
for pid in ids:
    try:
        d = json.load(open(f"/verif/evidence/{pid}.json"))
    except Exception as e:
        print("missing evidence", pid, e); bad += 1; continue
    c = d["coverage"]
    if c["obligations"] != c["discharged"] or d["violations"] != 0 or d["tier"] != "quick" or c["obligations"] == 0:
        print("BAD evidence", pid, c["obligations"], c["discharged"], d["violations"], d["tier"]); bad += 1
led = json.load(open("/verif/ledger.json"))
for pid in ids:
    if not led.get(pid):
        print("no ledger for", pid); bad += 1; continue
    d = json.load(open(f"/verif/evidence/{pid}.json"))
    if len(led[pid]) != d["coverage"]["discharged"]:
        print("ledger/evidence mismatch", pid, len(led[pid]), d["coverage"]["discharged"]); bad += 1
import hashlib, os
try:
    base = json.load(open("/verif/baseline_hashes.json"))
    cur = {}
    for root, dirs, files in os.walk('/repo'):
        dirs[:] = [d for d in dirs if d != '.git']
        for f in files:
            if f.endswith('.go'):
                p = os.path.join(root, f)
                cur[os.path.relpath(p, '/repo')] = hashlib.sha256(open(p, 'rb').read()).hexdigest()[:16]
    if base != cur:
        print("baseline_hashes.json does not describe /repo's tree: run tools/ledger_from_evidence.py after the quick suite"); bad += 1
except Exception as e:
    print("baseline hashes:", e); bad += 1
print("ok" if not bad else f"{bad} problem(s)")
sys.exit(1 if bad else 0)
