#!/bin/sh
# usage: cex.sh <replay file> [pattern]  - show interesting model values of a failing obligation
f=$(grep "smt query" "$1" | awk '{print $3}'); p=${f%.smt2}_plain.smt2; [ -f $p ] || p=$f
echo "query: $p"; grep "^(assert" $p | tail -1 | cut -c1-300
timeout 25 z3-new -T:20 $p | python3 -c "
import sys,re
t=sys.stdin.read()
for m in re.finditer(r'\(define-fun (\S+) \(\) (\S+|\([^)]*\))\s+([^\n]*(?:\n\s{4,}[^\n]*)*)',t):
    n,v=m.group(1),' '.join(m.group(3).split())
    if re.search(r'${2:-^(in\.|lh\.|r\.|sk\.)}',n) and len(v)<200: print(n,'=',v.rstrip(')'))
"
