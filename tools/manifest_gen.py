#!/usr/bin/env python3
"""Regenerates /verif/MANIFEST.json from the table below (claimed properties) and
properties.jsonl (everything not claimed goes to not_applicable with its reason)."""
import json, subprocess

REPO_COMMITS = subprocess.run(["git", "-C", "/repo", "log", "--format=%H %s"], capture_output=True, text=True).stdout.splitlines()
hook_commits = [l.split()[0] for l in REPO_COMMITS if l.split(" ", 1)[1].startswith("verif:")]

TECH = "contract-based deductive verification: VCs generated from go/ssa of /repo's working tree by govc, discharged by z3 4.8.12 / z3 5.1.0 / cvc5 1.0 raced per obligation"

CLAIMS = {
    "C15": dict(
        text="Proof (unbounded, all inputs) of the encoding fragment: every operand EncodeSrc accepts decodes to the same kind and address; New/OpCode round-trip for all 128 opcodes; operand fields are pairwise disjoint and disjoint from the opcode, so OR-composition and jump patching by OR are lossless; NewFunction/ToFunction round-trip on the representable domain. 64-bit exact bit-vector semantics.",
        note="Decided: each encoding step, for all inputs. Not decided: the whole-session sentence 'programs of any length work or are refused' (composition over all emission sites is per-site preconditions, see C05/C12 when claimed). Trusted: the VC generator, go/ssa, the solvers.",
        ref="DESIGN.md section 4 C15"),
    "C18": dict(
        text="Proof (unbounded) that every method of memory.Type preserves the representation invariant wf (frame table sorted, inside the stack, below sp) and states the whole view afterwards: exact sp, exact frame table, every stack slot below the old sp unchanged except the one slot written by Set; frame conditions (modifies) are proved, not assumed; Clone copies the whole top frame into storage disjoint from the parent also when a memory is recycled, and the clone cannot write the parent's closure stack. The sentence 'a variable holds its last written value' follows by induction over method calls from these frame clauses (paper step).",
        note="Assumed at vm call sites (not proved): the run-time stack discipline preconditions of Pop/PushFrame/Set (callers of memory are checked against them only where vm is under contract). Integers are mathematical (no overflow of sp). Trusted: VC generator, go/ssa, solvers, assumed contracts of append/copy/make/slices.Clip per the Go spec.",
        ref="DESIGN.md section 4 C18"),
}

CLAIMS["C11"] = dict(
    text="Proof (unbounded, every operand pair, 64-bit exact integers, IEEE floats in the SMT FP theory) that Arith, Mod, Relational, Logic, Shift, Flip, Not, Len, Index, Eq, WeakEq (non-array operands and shallow array facts) and StrictEq return exactly the documented result or the documented error (nil before type error, int/float promotion, truncating division, zero-division for / and %, index bounds), stated over the whole result (kind, payload, error identity). Algebraic laws (== symmetric, int equals its float, < > <= >= mutually consistent incl. NaN, slice length, split/concat identity, concat length) are lemmas over the spec functions only.",
    note="Oracle: spec functions written from the Readme tables in the contract file. Not decided: equality of nested arrays beyond 'different length => unequal' (needs a recursive spec function; the element-wise comparison loop is verified only for panic-freedom and error propagation). String facts rest on the assumed string algebra axioms (length/concat/substring) listed in the evidence. Shifts: oracle is Go's shift with unsigned count (Readme says only 'bitshift').",
    ref="DESIGN.md section 4 C11")

CLAIMS["C13"] = dict(
    text="Proof (unbounded, any interleaving because every operation is verified from an arbitrary state satisfying the invariant): TLexer.Next/Snapshot/Commit/Rollback/Token/Err/From/To keep the cache append-only and the snapshot stack exact (Rollback restores precisely the saved read position; Next replays cached[readp+1] or appends exactly one result of the wrapped scanner); TLexer is proved to refine the abstract transactional-lexer model (pos, cached, depth, saved) the combinators are written against; every combinator closure (Ok, Assert, Not, Drop, Choose, OneOf, And, Any, SeparatedBy, SurroundedBy, Accept, Fmap) is proved against the type-level Parser contract (snapshot stack balanced, saved positions untouched, cache only extended) plus: Assert consumes nothing; OneOf leaves the position unchanged when every alternative fails; Choose/OneOf/Any/SeparatedBy loop invariants state the position is restored before the next alternative is tried; Choose's trailing panic is unreachable when its last gate is total.",
    note="Not decided: the denotational sentence (a combined parser accepts/builds exactly as the ordered-choice recogniser) and the content of result lists (only the input position and transaction discipline are specified). Assumed: functions passed to Accept/Fmap and TokenWrapper.Wrap do not touch the lexer; closure preconditions on captured variables (len(args) >= 1, last gate total) are established by the constructing function and by parser.go call sites, which are not checked.",
    ref="DESIGN.md section 4 C13")
CLAIMS["C14"] = dict(
    text="Proof (unbounded, every input string incl. non-ASCII bytes) of the scanner's DFA invariant and token postconditions: each of the 11 state functions and newSTR is proved against one type-level state contract (transitions start a lexeme in the state of the character's class, tokens end only on a character that cannot extend them, single-character states always end, blanks/comments are the only dropped lexemes); Lexer.Next preserves 0<=from<=to<=len(input), reader position, first-character/family agreement, and on every emitted token: text == input[from:to] (except string literals, see note), span ordered and adjacent to the next lexeme, non-empty, kind determined by the first character, maximal run (the next input byte does not extend the token), synthetic EOL only after a non-EOL token, EOF exactly once after EOL, then false forever; the loop has a proved variant (termination).",
    note="String-literal token text has \\n substituted by the scanner (pinned by lexer_test.go), so text==span is claimed for every other kind. 'Everything between tokens is blanks or comments' is proved at transition level (only whitespace/comment states drop a lexeme, and their lexemes start with a blank or ';'), not as a quantified statement over the dropped bytes; the whitespace/comment-insensitivity corollary is a paper step. Facts hold while no lexer error has been reported (lclean). Assumed: strings.Reader.ReadRune contract (listed in evidence).",
    ref="DESIGN.md section 4 C14")
CLAIMS["C06"] = dict(
    text="Proof of the function-level content: the scanner terminates (loop variant) and never panics on any input (eof state unreachable with input left, all index/slice operations in range); TLexer and every combinator closure are panic-free under the transaction invariant; tokenWrapper.Wrap cannot panic (slice bounds of string literals, numeric conversions) under the stated token-shape assumptions; reportError's three slice expressions and two strings.Repeat counts are in range whenever the reported span lies inside the input; the span of a parser error that stems from the end of input or from a scanner error is proved to be the span the transactional lexer reports, which is proved to lie inside the input (cached positions invariant of TLexer, through the refinement to the abstract lexer).",
    note="Not decided: termination of the mutually recursive grammar functions in parser.go and Go stack exhaustion; the transformer (mk*) type assertions, which depend on the result-list shapes of the grammar; that every error span handed to reportError lies inside the input is proved for scanner spans (C14 span clause) and for Accept's lexer-error sites, but not for the token-mismatch site (spans of Token values are behind a trusted interface), for errors built in parser.go, nor for the propagation through the other combinators. Assumed preconditions are listed in the evidence (token shape at Wrap, accepted literals convert).",
    ref="DESIGN.md section 4 C06")


CLAIMS["C12"] = dict(
    text="Proof (unbounded, every syntax tree satisfying the class typing wfAST, every flag combination a caller can pass) that each of the 27 byteCode methods, condition, discardingWhile, pushingWhile, ByteCode and ByteCodeNoStck satisfies one type-level contract K whatever strategy the flags select: the code and data segments only grow (existing entries unchanged), every emitted instruction satisfies wfInstr (operand kinds the VM can fetch, data-segment indices in range, MOV/INC destinations assignable), the returned operand descriptor occupies only the requested field, is never an immediate, is a temp-register operand only where the caller can accept one (OpDepth>0 / AcceptTemp / Discard, never under ForbidTemp), an expression always yields a value descriptor, and a statement yields none only when its result is dropped, returned or inside a function. Every if/if-else/while variant keeps the conditional jump that tests its condition (cond_tested), so the condition is type-checked in every position. The same-operand shortcut compares operands structurally without panicking. Code-generation choices that the property names are pinned by obligations of their own: the operator table of BinOp equals the documented one and the left operand is compiled into field 1 (the VM computes src1 op src0); condition() emits jump-if-false exactly when (false branch wanted) differs from (condition negated), and every if/while pairs each test with the code that follows it; the increment instruction is used only for `x = x + 1` / `x = 1 + x`; a value-producing while yields the initial nil on zero iterations also in returning position and pops the previous iteration's value; HasCall is exact; when the caller forbids the temp register (it holds a value there), no instruction emitted for the operand writes it (function-literal bodies exempt), for every byteCode method.",
    note="Not decided: equality of run-time values across strategies (that needs the VM semantics composed with the emitted code; only the structural contract K and the VM-side interface are proved). Assumed: wfAST (the parser and STRewrite only build well-typed trees: expression slots hold expression nodes) via one-level unfolding assumptions per node type; the record view of instruction words (justified bit-level in types/bytecode, C15); HasCall/Constant/Name are trusted pure. Operand-range refusals of EncodeSrc at call sites are panics, not errors (finding D15b, see DESIGN.md), and are outside this check.",
    ref="DESIGN.md section 4 C12 and change log")
CLAIMS["C05"] = dict(
    text="Proof (unbounded) of the function-level content of 'never an internal fault': (a) every value operator (Arith, Mod, Relational, Logic, Shift, Flip, Not, Len, Index, Eq, WeakEq, StrictEq) and every memory method is panic-free under its stated precondition (all index, slice, nil, division and shift obligations discharged, 64-bit exact in types/value); (b) the compiler (all byteCode methods) reaches none of its panics and none of its index/slice/nil/type-assertion faults on any wfAST tree, and emits only instructions satisfying wfInstr; (c) the VM, on code satisfying wfExec (= wfInstr with a fetchable RET operand), never reaches 'unknown source', 'unexpected dst in MOV/INC' or 'unknown opcode': every operand fetch of every opcode case is proved to carry a fetchable kind.",
    note="Assumed and listed in the evidence: the run-time stack discipline (preconditions of the memory package at VM call sites), typing of data-segment entries used as global names, 'cannot convert value to array', 'can't pop instruction pointer', 'context not found' (these depend on whole-program invariants of compiled code, not on one instruction), nil-dereference/index obligations inside vm.Run and dumpStack other than the report slice, EncodeSrc range refusal by panic at compiler call sites, dead `RET <no value>` instructions emitted after always-returning statements, builtin.Load trees, Go stack exhaustion and memory exhaustion.",
    ref="DESIGN.md section 4 C05 and change log")
CLAIMS["C09"] = dict(
    text="Proof (unbounded) of the residue-relevant function contracts: exact stack-pointer / frame / closure-stack deltas of every memory method (Push +1, Pop -1, PushFrame/PopFrame inverse on sp and fp, ResetSP, Reset); dumpStack leaves the main memory reset, the main ip at the end of code and no registered context; DCONT and RCONT leave no context of the destroyed id range registered (loop invariants over the finite-map model of the children table); the compiler gives nested for loops disjoint context ids and hands the enclosing loops' CtxLo to the body so that a return deletes all of them (outer_lo_inherited), and every conditional statement consumes its condition (cond_tested); a statement that is not the last of its block leaves nothing on the stack, a discarded if/while/for body value is popped before the next iteration or the end of the statement, a value-producing for leaves exactly one value per iteration (guards at the emission sites of Block, If, discardingWhile, pushingWhile, For).",
    note="Not decided: the whole-statement stack balance (that the code emitted for a statement pushes exactly one value or none on every path) - it needs a stack-effect abstraction of instruction sequences that the contracts do not have; capacity (len(stack)) growth. Assumed: tree-shaped context structure in deleteContext (trusted contract), intmap finite-map semantics.",
    ref="DESIGN.md section 4 C09 and change log")
CLAIMS["C10"] = dict(
    text="Proof (unbounded) that the operations that build arrays allocate: Arith on two arrays returns storage that did not exist before the call and leaves both operands' elements unchanged (frame proved); Index returns a sub-slice and modifies nothing; the VM's ARR step hands value.NewArray a freshly allocated array whatever its operands (array_is_fresh); operand fetch from the data segment returns the constant itself and writes nothing.",
    note="Not decided: the session-level sentence (every variable still prints as before) - it follows from these frames plus the absence of any in-place element store, which is a syntactic fact of value.go/vm.go checked by the frame obligations of the functions under contract only. Assumed: slices.Clone/append per the Go spec.",
    ref="DESIGN.md section 4 C10")
CLAIMS["C04"] = dict(
    text="Proof (unbounded) of two mechanisms: memory.Set/LookUpLocal/PushFrame/PopFrame address only the top frame (frame clauses of C18, tagged C04), and vm.Run's RET gives a returned function value a copy of exactly the frame it captured (same length and elements) in storage allocated by that RET, on every path that pops a frame or resets the stack (returned_closure_copied / returned_closure_detached).",
    note="Not decided: name resolution in STRewrite (symbol-table walk) and the escape of closures inside arrays (design defect D11, not expressible in the RET contract as written: a closure inside a returned array is not detached; not claimed either way). Assumed: value views are uninterpreted pure functions; stack discipline.",
    ref="DESIGN.md section 4 C04")
CLAIMS["C03"] = dict(
    text="Proof (unbounded) of the storage facts behind purity: growStack/Push/PushFrame preserve every live slot (C18 frames tagged C03), Clone copies the whole top frame into storage disjoint from the parent also when a memory is recycled, and RET detaches a returned closure from the stack it was defined on.",
    note="Not decided: the functional sentence itself (equal arguments give equal results) - it is a property of whole executions. Design defect D9 (closure frames alias a stack array that append may reallocate) is outside what these contracts state.",
    ref="DESIGN.md section 4 C03")
CLAIMS["C17"] = dict(
    text="Proof (unbounded) of two instruction-level contracts: (1) for every string, the ATON step raises the conversion error only when neither strconv.Atoi nor strconv.ParseFloat accepts it, so everything toa renders for a number is accepted back; (2) the READ step reads from the one buffered reader the machine was created with, so input the reader has buffered beyond the current line is still there for the next read(). Also: nested for loops get disjoint iterator-context ids (the compiler's context-id precondition), which the generator built-ins rely on.",
    note="Not decided: toa/write rendering equality, fromto/elems/indices (library code written as syntax trees and run by compiler+VM), argument-type errors of the built-ins. Assumed: Atoi/ParseFloat are deterministic functions of their argument; bufio.Reader keeps what it has buffered.",
    ref="DESIGN.md section 4 C17 and change log")
CLAIMS["C19"] = dict(
    text="Proof (unbounded) that every error exit of vm.Run calls dumpStack with the instruction pointer of the failing instruction and a non-nil error, that this ip lies inside the code segment, that dumpStack's window slice (*CS)[max(0,ip-3):min(len,ip+3)] and its indexing never fail, that the error returned is the error raised, and that the main context is reset afterwards whichever context failed.",
    note="Not decided: the call list printed by memory.DumpStack (depends on debug info matching the frames; trusted pure here), operand values shown. Clone's ensures[shape] (C18) covers the stale-frame-pointer variant.",
    ref="DESIGN.md section 4 C19")
CLAIMS["C08"] = dict(
    text="Proof (unbounded) that dumpStack, on every error exit and from whichever context, resets the main context's memory (sp 0, no frames, no closures, globals kept), sets the main ip to the end of code and clears the context table; memory.Reset keeps the global map; reportError cannot fail for spans inside the input.",
    note="Not decided: equivalence of later statements with a failure-free twin session (whole-history property). processInput adding no code on parse errors is not under contract.",
    ref="DESIGN.md section 4 C08")
CLAIMS["C02"] = dict(
    text="Proof (unbounded) of the context mechanics: a forked context (new or recycled) is registered as a child of the forking context and runs on the cloned memory (fork_parent); the clone cannot write the parent's closure stack (closure_separated) and starts with the parent's top frame; nested for loops get disjoint context ids and a return destroys the contexts of all enclosing loops (outer_lo_inherited); DCONT/RCONT unregister every context they destroy.",
    note="Not decided: the enumeration semantics (values bound in order, lock-step, laziness) - whole-execution properties. Design defect D8 (one temp register for all contexts) is not expressible in these contracts.",
    ref="DESIGN.md section 4 C02")

CLAIMS["C01"] = dict(
    text="Proof (unbounded) of three mechanisms the equivalence rests on, nothing more: (1) every HasCall implementation computes exactly 'a call occurs in the node outside function literals' (the condition under which BinOp may keep its left operand in the VM's single temp register across the evaluation of the right operand); (2) operand fetch returns the data-segment constant itself for DS operands and pops the stack only for stack operands; (3) a forked iterator context cannot write the parent's closure stack; (4) the compiler's operator table is the documented one, the left operand goes to field 1 (the VM computes src1 op src0), jump polarity follows negation, the increment instruction is used only for x = x + 1 / x = 1 + x, and every byteCode method satisfies the structural contract K (see C12) - this check runs those obligations too, so a change to the code generator is reported against C01 as well. The operator results (C11) and the memory model (C18) are claimed under their own ids.",
    note="NOT decided: the property's sentence - equality of value, output and error class between compiler+VM and a definitional evaluator over all programs. That needs a step semantics of the VM composed with the emitted code (a simulation argument), which is outside what contracts on single functions express here. Listed so that changes to these three mechanisms are reported against C01 as well.",
    ref="DESIGN.md change log B.2")
CLAIMS["C07"] = dict(
    text="Proof (unbounded, any chain length) for the two tree builders that implement associativity and index nesting: mkLeftChain returns the left-associated tree of `x0 op1 x1 ... opn xn` (each operator node has the chain to its left as Left and the next operand as Right), mkIndex returns the left-nested index chain (each [i] / [i:j] applies to everything to its left), both stated against ghost functions defined by the documented rule; their panics and index/slice operations are unreachable/in range for the item counts the grammar produces. Each of the five binary precedence levels (boolOp, relational, logic, addsub, divmul) is checked to parse `operand (op operand)*` with both the first and the repeated operand taken from the next tighter level and to hand the items to mkLeftChain.",
    note="NOT decided: the round trip print-then-parse over all trees, precedence levels and layout insensitivity: the grammar functions in parser.go are closures assembled from combinators whose result lists have no contract (C13 decides positions only), and no printer exists in the repository. Assumed: the item lists handed to the builders have the shapes the grammar produces (odd length with operators at odd positions; type assertions succeed).",
    ref="DESIGN.md change log B.2")

CLAIMS["C16"] = dict(
    text="Proof (unbounded) of two mechanisms behind 'all three run modes execute the same program the same way': (1) every path from parsed text to the compiler resolves names first - the compiler entry points ByteCode/ByteCodeNoStck demand a tree produced by STRewrite, and processInput (script and REPL mode) and the -eval branch of cmd/calc's main are checked against that demand at their call sites; (2) the script-file reader never reports an error together with data, which is exactly what Loop (it discards the line that comes with a read error) needs so that a final line without a newline is executed.",
    note="NOT decided: equality of outputs across modes, that -eval runs more than the first statement, the brace/quote/bracket counting heuristic of Loop against the lexical structure (needs a string theory for strings.Count), readline behaviour. Assumed: STRewrite really produces a resolved tree (trusted type contract), builtin.Load (hand-built trees) is not checked, bufio.ReadString may return data with an error (that is the point of the obligation), every other external of main is havocked.",
    ref="DESIGN.md change log B.2")

NA = {
 "C01": "no contract within reach decides it: the property equates the results of whole executions (compiler + VM) with a definitional evaluator; the function-level pieces it depends on are claimed separately (C05 interface, C11 operators, C12 structural contract K, C18 memory); composing them needs a VM step semantics and a simulation argument, which is a model, not a contract on one function",
 "C07": "no contract within reach decides it: the statement quantifies over all syntax trees printed by documented rules and re-parsed; the grammar functions are mutually recursive closures built at init time from combinators whose result lists are unspecified (C13 decides only positions); a round-trip contract would need a printer that does not exist in the repository (writing one would be a model)",
 "C16": "no contract within reach decides it: the property compares outputs of three whole-program run modes of cmd/calc (process-level behaviour, stdin/files); the line-accumulation loop and readers are I/O bound and their externals (bufio, readline, os) have no usable contracts here",
}
NA_DEFAULT = "not applicable"

OPEN = {
 "C18": " Open listed finding (KNOWN-FINDING line on every run): growStack#ensures[frames_stay_valid] - growing the value stack moves it and strands closure frames captured before (DESIGN.md B.3 D9).",
 "C03": " Open listed finding: growStack#ensures[frames_stay_valid] - the same call can return different results depending on whether the stack was reallocated inside it (D9).",
 "C04": " Open listed finding: Run#atcall[returned_array_closures_detached@m.PopClosure()] - a closure returned inside an array is not detached from the popped frame (D11). Name resolution (Name.STRewrite: own slot, else immediately enclosing function, else global) and the slot count of function literals are now under contract too.",
 "C05": " Open listed finding: EncodeSrc#nopanic[srcAddr out of range] - oversized programs are refused by a Go panic, i.e. by aborting the process (D15b).",
 "C15": " Open listed finding: EncodeSrc#nopanic[srcAddr out of range] - the refusal of an operand that does not fit is a panic, not an error (D15b); nothing is executed with wrapped addresses.",
 "C14": " Open listed finding: Next#ensures[text_is_span_strlit] - the text of a string-literal token has backslash-n replaced by a line feed and is therefore not the span's text (D21, pinned by lexer_test.go).",
}
for k, v in OPEN.items():
    CLAIMS[k]["note"] += v

# Extension round (DESIGN.md "Extension round (2026-09-26)")
ISA = (" VM side (extension round): the run loop is proved against the documented instruction set as a step relation checked at every back edge "
       "(vm.Run#step[loop0:isa_*]): for each opcode class the instruction at the head of the iteration pops exactly its stack operands (src0 first), "
       "applies the operator its opcode names to (src1, src0) resp. (tmp, src0), leaves the result on the stack resp. in the accumulator, moves exactly the source value "
       "to the local / global / accumulator destination of MOV and INC, jumps exactly on the documented truth value and only on a boolean operand, and CALL builds the documented frame; "
       "operand fetch is functional (fetch#ensures[operand]). The value operators themselves are uninterpreted here (proved under C11); EXIT is not in the relation.")
CLAIMS["C01"]["text"] += ISA
CLAIMS["C12"]["text"] += ISA
CLAIMS["C11"]["text"] += (" Extension round: string indexing yields the byte at the position as a one-byte string for every byte value (defect D27, fixed 4a066f9, was hidden by a wrong string(byte) axiom of the engine); "
                          "the VM applies the operator named by the opcode to (src1, src0) in this order and stores exactly its result (vm.Run#step[loop0:isa_binary, isa_binary_tmp, isa_unary, isa_unary_tmp, isa_inc], Run#atcall[index_operands]).")
CLAIMS["C04"]["text"] += (" Extension round: slot allocation - Assign.STRewrite and For.STRewrite keep a function's scope dense and duplicate-free (an existing name keeps its slot, a new one takes the slot numbered by the scope's size, all other names keep theirs), "
                          "Function.STRewrite hands its body such a scope when the parameter names are pairwise distinct; MOV/INC write exactly the addressed local slot or global (isa_mov, isa_inc); CALL builds the frame over the arguments and installs the callee's captured frame (isa_call).")
CLAIMS["C04"]["note"] += (" Open listed findings (extension round): Function.STRewrite#atcall[body_scope_well_formed@...] - with a repeated parameter name the first new local shares the last parameter's slot (D29); "
                          "Run#atcall[yielded_closure_detached@m.Push(tmp)] - a closure yielded to a generator's consumer keeps pointing into the generator context's recyclable stack (D28). "
                          "The interface contract STRewriter.STRewrite (extends only the innermost scope, keeps slots and well-formedness) is trusted for the node types that only pass the table on.")
CLAIMS["C18"]["text"] += " Extension round: the same slot-allocation clauses of STRewrite and the VM's MOV/CALL steps (isa_mov, isa_call) are tagged C18 (a variable's slot is its own; a write reaches exactly that slot)."
CLAIMS["C18"]["note"] += " Open listed finding (extension round): Function.STRewrite#atcall[body_scope_well_formed@...] (D29, repeated parameter names)."
CLAIMS["C02"]["text"] += " Extension round: loop variables are allocated like assigned locals (For.STRewrite: existing slot kept, otherwise next free slot, scope stays dense and duplicate-free)."
CLAIMS["C02"]["note"] = CLAIMS["C02"]["note"].replace(" Design defect D8 (one temp register for all contexts) is not expressible in these contracts.", "") + (
    " Open listed finding (extension round): Yield.byteCode#ensures[yield_value_survives_resumption] - the value of a yield is re-read from the accumulator after the consumer's loop body ran, and the accumulator is shared by all contexts (D8, reachable through a function whose last statement is a yield).")
CLAIMS["C12"]["note"] += " Open listed finding (extension round): Yield.byteCode#ensures[yield_value_survives_resumption] (D8)."
CLAIMS["C01"]["note"] += " Open listed finding (extension round): Yield.byteCode#ensures[yield_value_survives_resumption] (D8)."
CLAIMS["C03"]["note"] += " Open listed finding (extension round): Run#atcall[yielded_closure_detached@m.Push(tmp)] (D28)."
CLAIMS["C13"]["text"] += (" Extension round: result lists of Any and SeparatedBy - a completed iteration extends the list by exactly as many nodes as its parsers produced and keeps the earlier entries, "
                          "the repetition ends only when the gate / separator or the element fails, and a failing round of SeparatedBy adds nothing (loop step / exit clauses).")
CLAIMS["C13"]["note"] = CLAIMS["C13"]["note"].replace("and the content of result lists (only the input position and transaction discipline are specified)", "and which nodes the new entries of a result list are (lengths, kept prefixes and exit conditions are specified; element identity needs a non-aliasing assumption on the parsers' result slices)")
CLAIMS["C07"]["text"] += (" Extension round: a repetition (Any) goes on for as long as gate and element succeed and returns what its iterations produced (lengths, kept prefix); a list with separators (SeparatedBy) likewise; "
                          "a for header is accepted only with as many iterators as variables (parser.forLoop#atcall[header_pairs_up], mkFor#ensures[lists_kept]).")
CLAIMS["C05"]["text"] += (" Extension round: the parser builds a For node only from a header whose variable and iterator lists have the same length (the compiler's panic for the other case is then unreachable from parsed text); "
                          "a function literal's frame covers its parameters (Function.STRewrite#ensures[frame_covers_params]); every statement of a block is compiled, so a discarded statement's runtime error is not lost (Block.byteCode#ensures[every_statement_compiled]).")
CLAIMS["C08"]["text"] += " Extension round: at every error exit of the run loop no global and no stack slot below the stack pointer differs from what it was when the failing instruction started (vm.Run#atcall[failed_instruction_stored_nothing]); every statement of a block is compiled."
CLAIMS["C08"]["note"] = CLAIMS["C08"]["note"].replace(" processInput adding no code on parse errors is not under contract.", " That the code and data segments are never truncated after a failed run is not under contract (vm.Run's frame is `modifies *`).")
CLAIMS["C16"]["text"] += " Extension round: (3) the script mode's and the REPL's compile entry points keep the code of the statement exactly and add at most a POP resp. a PUSH of its value (ByteCodeNoStck / ByteCode #ensures[statement_code_kept_plus_*])."
CLAIMS["C16"]["text"] += " (4) the statement assembler Loop never drops a line it has read from a statement that is being assembled (Loop#step[loop0:every_line_joins_the_statement])."
CLAIMS["C08"]["text"] += " processInput does not touch the code and data segments after the statement has run, whatever the outcome (processInput#step[loop0:segments_untouched_after_the_run])."
CLAIMS["C08"]["note"] = CLAIMS["C08"]["note"].replace(" That the code and data segments are never truncated after a failed run is not under contract (vm.Run's frame is `modifies *`).", " That vm.Run itself leaves the code and data segments alone is not proved (its frame is `modifies *`); what processInput does after the run is.")
CLAIMS["C16"]["text"] += " (5) the script reader obtains its lines with bufio's ReadString (a string of its own holding the whole line): ReadSlice / ReadLine are forbidden call sites."
CLAIMS["C17"]["text"] += " READ obtains its line with ReadString (ReadSlice / ReadLine are forbidden call sites)."
CLAIMS["C10"]["text"] += " Extension round: lines handed to the program (READ) and to the statement assembler (script reader) are strings of their own - the zero-copy read methods of bufio are forbidden call sites."
CLAIMS["C17"]["text"] += " READ fails only when the reader returned no data: the last line of an input without final newline is returned (defect D30, fixed 9325ab9)."
CLAIMS["C17"]["text"] += " Extension round: the WRITE step hands exactly its operand to fmt.Print, once (vm.Run#atcall[write_prints_the_value]), pushes Nil, and TOA pushes the string rendering of its operand (step[isa_pushes_one])."
CLAIMS["C02"]["text"] += (" The coroutine instructions are in the VM's step relation (vm.Run#step[loop0:isa_yield, isa_scont, isa_ccont, isa_dcont_rcont]): YIELD leaves its operand in the accumulator, suspends the generator at the YIELD and resumes the parent after the instruction it was suspended at with the value on its stack; "
                          "SCONT suspends the running context and resumes the child registered under the id after its suspension point; CCONT makes the forking context resume at ip+src0 and runs the new context on the instructions that follow; DCONT returns to the parent. 'Contexts form a tree' is an antecedent of these clauses.")
CLAIMS["C03"]["text"] += " Extension round: YIELD always loads the accumulator with its operand (isa_yield), a function literal's frame covers its parameters (frame_covers_params)."
CLAIMS["C11"]["text"] += " Eq#ensures[deep]: == on every operand pair, arrays included, is the documented element-wise relation and != its negation."
CLAIMS["C12"]["text"] += " Extension round: no part of a statement is skipped - Block compiles every statement; UnOp, IndexAt, IndexFromTo, Return, Yield, the built-in nodes, If, IfElse and Function compile their operands, branches and body (ghost marking compiledG; BinOp and Assign are exempt because of their folding / same-operand / INC shortcuts); RET and the coroutine instructions are in the VM's step relation."
CLAIMS["C01"]["text"] += " Extension round: also RET and the coroutine instructions (isa_ret_*, isa_yield, isa_scont, isa_ccont, isa_dcont_rcont); no statement of a block and no operand of the listed node types is skipped by the compiler; an instruction that fails has stored nothing."
CLAIMS["C19"]["text"] += " Extension round: in the listing around the failing instruction the marked line (with the operand values) is the failing instruction's and no other (dumpStack#atcall[marker_on_the_failing_instruction], [no_marker_elsewhere])."
CLAIMS["C04"]["text"] += " An assigned value is resolved in the scope as it is before the assignment takes effect (Assign.STRewrite#atcall[value_sees_the_scope_before_the_assignment])."
CLAIMS["C09"]["text"] += " Extension round: every non-control instruction changes the stack pointer by exactly one push minus its stack operands (vm.Run#step[loop0:isa_stack, isa_pushes_one]); fetch consumes a stack operand and nothing else."

props = [json.loads(l) for l in open("/verif/properties.jsonl")]
checks = []
na = []
for p in props:
    pid = p["id"]
    if pid in CLAIMS:
        c = CLAIMS[pid]
        checks.append({
            "property_id": pid,
            "quick_cmd": f"./check.sh {pid} quick",
            "thorough_cmd": f"./check.sh {pid} thorough",
            "evidence_file": f"/verif/evidence/{pid}.json",
            "replay_cmd_template": "cat {path}",
            "engine": "govc",
            "level_claimed": {"category": "proof", "text": c["text"], "design_ref": c["ref"]},
            "level_note": c["note"],
            "technique": TECH,
        })
    else:
        na.append({"property_id": pid, "reason": NA.get(pid, NA_DEFAULT)})

m = {
    "version": 1,
    "setup_cmd": "./setup.sh",
    "hooks": {
        "guard": "verif",
        "enable": "go build -tags verif ./... (the only hooks are comment-only contract files zz_contracts_verif.go behind //go:build verif; the engine loads /repo with -tags=verif)",
        "baseline_off_cmd": "cd /repo && GOFLAGS=-mod=mod GOPROXY=off go test -vet=off -count=1 ./...",
        "source_commits": hook_commits,
        "add_only": True,
    },
    "engines": [{"name": "govc", "path": "/verif/engine", "serves_properties": sorted(CLAIMS), "kind_free_text": "self-built verification-condition generator for Go: go/packages + go/ssa (naive form) forward symbolic execution per function against //@ contracts, loops cut at invariants, calls replaced by contracts, obligations as SMT-LIB2 for z3/cvc5"}],
    "checks": checks,
    "not_applicable": na,
    "notes": "Exit codes of every check: 0 held (KNOWN-FINDING / UNDECIDED lines possible), 1 with a VIOLATION line, 2 the machinery itself is broken (unsupported construct on the pinned tree, canary did not fail, vacuous precondition).",
}
json.dump(m, open("/verif/MANIFEST.json", "w"), indent=1)
print("claimed:", sorted(CLAIMS), "na:", len(na))
