#!/usr/bin/env python3
"""Regenerates /verif/MANIFEST.json from the table below (claimed properties) and
properties.jsonl (everything not claimed goes to not_applicable with its reason)."""
import json, subprocess

REPO_COMMITS = subprocess.run(["git", "-C", "/repo", "log", "--format=%H %s"], capture_output=True, text=True).stdout.splitlines()
hook_commits = [l.split()[0] for l in REPO_COMMITS if l.split(" ", 1)[1].startswith("verif:")]

TECH = "contract-based deductive verification: VCs generated from go/ssa of /repo's working tree by govc, discharged by z3 4.8.12 / z3 5.1.0 / cvc5 1.0 raced per obligation"

CLAIMS = {
    "C15": dict(
        text="Proof (unbounded, all inputs) of the encoding fragment: every operand EncodeSrc accepts decodes to the same kind and address; New/OpCode round-trip for all 128 opcodes; operand fields are pairwise disjoint and disjoint from the opcode, so OR-composition and jump patching by OR are lossless; NewFunction/ToFunction round-trip on the representable domain. 64-bit exact bit-vector semantics.",
        note="Decided: each encoding step, for all inputs. Not decided: the whole-session sentence 'programs of any length work or are refused' (composition over all emission sites is per-site preconditions, see C05/C12 when claimed). Trusted: the VC generator, go/ssa, the solvers.",
        ref="DESIGN.md section 4 C15"),
    "C18": dict(
        text="Proof (unbounded) that every method of memory.Type preserves the representation invariant wf (frame table sorted, inside the stack, below sp) and states the whole view afterwards: exact sp, exact frame table, every stack slot below the old sp unchanged except the one slot written by Set; frame conditions (modifies) are proved, not assumed; Clone copies the whole top frame into storage disjoint from the parent also when a memory is recycled, and the clone cannot write the parent's closure stack. The sentence 'a variable holds its last written value' follows by induction over method calls from these frame clauses (paper step).",
        note="Assumed at vm call sites (not proved): the run-time stack discipline preconditions of Pop/PushFrame/Set (callers of memory are checked against them only where vm is under contract). Integers are mathematical (no overflow of sp). Trusted: VC generator, go/ssa, solvers, assumed contracts of append/copy/make/slices.Clip per the Go spec.",
        ref="DESIGN.md section 4 C18"),
}

CLAIMS["C11"] = dict(
    text="Proof (unbounded, every operand pair, 64-bit exact integers, IEEE floats in the SMT FP theory) that Arith, Mod, Relational, Logic, Shift, Flip, Not, Len, Index, Eq, WeakEq (non-array operands and shallow array facts) and StrictEq return exactly the documented result or the documented error (nil before type error, int/float promotion, truncating division, zero-division for / and %, index bounds), stated over the whole result (kind, payload, error identity). Algebraic laws (== symmetric, int equals its float, < > <= >= mutually consistent incl. NaN, slice length, split/concat identity, concat length) are lemmas over the spec functions only.",
    note="Oracle: spec functions written from the Readme tables in the contract file. Not decided: equality of nested arrays beyond 'different length => unequal' (needs a recursive spec function; the element-wise comparison loop is verified only for panic-freedom and error propagation). String facts rest on the assumed string algebra axioms (length/concat/substring) listed in the evidence. Shifts: oracle is Go's shift with unsigned count (Readme says only 'bitshift').",
    ref="DESIGN.md section 4 C11")

CLAIMS["C13"] = dict(
    text="Proof (unbounded, any interleaving because every operation is verified from an arbitrary state satisfying the invariant): TLexer.Next/Snapshot/Commit/Rollback/Token/Err/From/To keep the cache append-only and the snapshot stack exact (Rollback restores precisely the saved read position; Next replays cached[readp+1] or appends exactly one result of the wrapped scanner); TLexer is proved to refine the abstract transactional-lexer model (pos, cached, depth, saved) the combinators are written against; every combinator closure (Ok, Assert, Not, Drop, Choose, OneOf, And, Any, SeparatedBy, SurroundedBy, Accept, Fmap) is proved against the type-level Parser contract (snapshot stack balanced, saved positions untouched, cache only extended) plus: Assert consumes nothing; OneOf leaves the position unchanged when every alternative fails; Choose/OneOf/Any/SeparatedBy loop invariants state the position is restored before the next alternative is tried; Choose's trailing panic is unreachable when its last gate is total.",
    note="Not decided: the denotational sentence (a combined parser accepts/builds exactly as the ordered-choice recogniser) and the content of result lists (only the input position and transaction discipline are specified). Assumed: functions passed to Accept/Fmap and TokenWrapper.Wrap do not touch the lexer; closure preconditions on captured variables (len(args) >= 1, last gate total) are established by the constructing function and by parser.go call sites, which are not checked.",
    ref="DESIGN.md section 4 C13")
CLAIMS["C14"] = dict(
    text="Proof (unbounded, every input string incl. non-ASCII bytes) of the scanner's DFA invariant and token postconditions: each of the 11 state functions and newSTR is proved against one type-level state contract (transitions start a lexeme in the state of the character's class, tokens end only on a character that cannot extend them, single-character states always end, blanks/comments are the only dropped lexemes); Lexer.Next preserves 0<=from<=to<=len(input), reader position, first-character/family agreement, and on every emitted token: text == input[from:to] (except string literals, see note), span ordered and adjacent to the next lexeme, non-empty, kind determined by the first character, maximal run (the next input byte does not extend the token), synthetic EOL only after a non-EOL token, EOF exactly once after EOL, then false forever; the loop has a proved variant (termination).",
    note="String-literal token text has \\n substituted by the scanner (pinned by lexer_test.go), so text==span is claimed for every other kind. 'Everything between tokens is blanks or comments' is proved at transition level (only whitespace/comment states drop a lexeme, and their lexemes start with a blank or ';'), not as a quantified statement over the dropped bytes; the whitespace/comment-insensitivity corollary is a paper step. Facts hold while no lexer error has been reported (lclean). Assumed: strings.Reader.ReadRune contract (listed in evidence).",
    ref="DESIGN.md section 4 C14")
CLAIMS["C06"] = dict(
    text="Proof of the function-level content: the scanner terminates (loop variant) and never panics on any input (eof state unreachable with input left, all index/slice operations in range); TLexer and every combinator closure are panic-free under the transaction invariant; tokenWrapper.Wrap cannot panic (slice bounds of string literals, numeric conversions) under the stated token-shape assumptions; reportError's three slice expressions and two strings.Repeat counts are in range whenever the reported span lies inside the input.",
    note="Not decided: termination of the mutually recursive grammar functions in parser.go and Go stack exhaustion; the transformer (mk*) type assertions, which depend on the result-list shapes of the grammar; that every error span handed to reportError lies inside the input is proved for scanner spans (C14 span clause) but the propagation through combinator.Error values is not. Assumed preconditions are listed in the evidence (token shape at Wrap, accepted literals convert).",
    ref="DESIGN.md section 4 C06")

NA_DEFAULT = "engine stage not reached: contract designed (DESIGN.md section 4) but its obligations are not discharged by the engine as built, so nothing is claimed"

props = [json.loads(l) for l in open("/verif/properties.jsonl")]
checks = []
na = []
for p in props:
    pid = p["id"]
    if pid in CLAIMS:
        c = CLAIMS[pid]
        checks.append({
            "property_id": pid,
            "quick_cmd": f"./check.sh {pid} quick",
            "thorough_cmd": f"./check.sh {pid} thorough",
            "evidence_file": f"/verif/evidence/{pid}.json",
            "replay_cmd_template": "cat {path}",
            "engine": "govc",
            "level_claimed": {"category": "proof", "text": c["text"], "design_ref": c["ref"]},
            "level_note": c["note"],
            "technique": TECH,
        })
    else:
        na.append({"property_id": pid, "reason": NA_DEFAULT})

m = {
    "version": 1,
    "setup_cmd": "./setup.sh",
    "hooks": {
        "guard": "verif",
        "enable": "go build -tags verif ./... (the only hooks are comment-only contract files zz_contracts_verif.go behind //go:build verif; the engine loads /repo with -tags=verif)",
        "baseline_off_cmd": "cd /repo && GOFLAGS=-mod=mod GOPROXY=off go test -vet=off -count=1 ./...",
        "source_commits": hook_commits,
        "add_only": True,
    },
    "engines": [{"name": "govc", "path": "/verif/engine", "serves_properties": sorted(CLAIMS), "kind_free_text": "self-built verification-condition generator for Go: go/packages + go/ssa (naive form) forward symbolic execution per function against //@ contracts, loops cut at invariants, calls replaced by contracts, obligations as SMT-LIB2 for z3/cvc5"}],
    "checks": checks,
    "not_applicable": na,
    "notes": "Exit codes of every check: 0 held (KNOWN-FINDING / UNDECIDED lines possible), 1 with a VIOLATION line, 2 the machinery itself is broken (unsupported construct on the pinned tree, canary did not fail, vacuous precondition).",
}
json.dump(m, open("/verif/MANIFEST.json", "w"), indent=1)
print("claimed:", sorted(CLAIMS), "na:", len(na))
