#!/usr/bin/env python3
"""Prints the seed matrix (markdown) from seeded/*/meta.json."""
import json, glob, os
rows = []
for d in sorted(glob.glob('/verif/seeded/*/')):
    s = os.path.basename(d.rstrip('/'))
    try:
        m = json.load(open(d + 'meta.json'))
    except Exception as e:
        rows.append(f"| {s} | (no meta.json: {e}) | | | |")
        continue
    what = m['what'].split(' Why it breaks')[0].split('Why it breaks')[0][:150].replace('|', '/')
    conf = f"suite {m['suite']}; demo unchanged/changed tree: {m['demo_exit_unchanged_tree']}/{m['demo_exit_changed_tree']}"
    caught, by = [], []
    for p, r in m['checks'].items():
        if isinstance(r, dict) and r.get('exit') == 1:
            caught.append(p)
            by.append(r.get('obligations', '').split(';')[0][:110])
    missed = [p for p, r in m['checks'].items() if isinstance(r, dict) and r.get('exit') == 0]
    res = ('**caught** by ' + ', '.join(caught)) if caught else 'not caught'
    if missed and caught:
        res += ' (not by ' + ', '.join(missed) + ')'
    rows.append(f"| {s}{' (rebased)' if m.get('rebased') else ''} | {what} | {conf} | {res} | {by[0] if by else ''} |")
print("| seed | change | confirmation | result | first failing obligation |")
print("|------|--------|--------------|--------|---------------------------|")
print("\n".join(rows))
