#!/bin/sh
# usage: check.sh <property-id> <quick|thorough>
# The engine loads /repo's current working tree on every run (nothing of /repo is cached).
set -u
cd /verif || exit 2
export GOFLAGS=-mod=mod GOPROXY=off GOSUMDB=off GOTOOLCHAIN=local
if [ ! -x /verif/bin/govc ]; then
  (cd /verif/engine && go build -o /verif/bin/govc .) || { echo "cannot build govc"; exit 2; }
fi
exec /verif/bin/govc -repo /repo -prop "$1" -tier "${2:-quick}" -work /verif/work -evidence /verif/evidence -verif /verif
